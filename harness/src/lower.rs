//! Lowering ops (C10): fluent expression trees posted through the real builder API, lowered by the
//! model's own `prepare_for_search` (hook H2), dumped (variables + `Debug` of every propagator) and
//! enumerated; the Lean model of the lowering must produce the same dump and the same sequence.
//!
//! Two streams: the integer stream (default; `--nonlinear` adds `* / mod` of sub-trees) and the
//! FLOAT stream (`--float`): float variables (`lw.fvar <lo> <hi>`, f64 bit patterns), float
//! literals (`f <bits>`) and integer literals in every position of mixed trees, generated around a
//! witness point (`lw.wit`).  Float cases are dumped (`lw.lower`; every f64 of the `Debug` output is
//! re-encoded as `f<bits>`), their lowered linear rows are pruned once by the real propagators
//! (`lw.prune`: ties the model of `IntLin*` over float variables), and solved (`lw.solve`, result
//! line `-`: oracle only).  Oracle of the float stream: direct evaluation of the trees at the
//! returned solution / at the witness when `solve()` says NoSolution, three-valued, within the
//! tolerance of the `#flapi` stream of `float.rs`; failures are tagged with a recorded finding only
//! when the predicted lowering of the violated tree (integer or float row, nested through views,
//! auxiliary integer variables) is the one that finding describes.
use crate::out::{guarded, Out};
use crate::rng::Rng;
use selen::prelude::*;
use selen::runtime_api::{Constraint, ExprBuilder};

#[derive(Clone, Debug)]
pub enum Ex {
    V(usize),
    K(i32),
    /// float literal `float(c)`
    F(f64),
    Add(Box<Ex>, Box<Ex>),
    Sub(Box<Ex>, Box<Ex>),
    Mul(Box<Ex>, Box<Ex>),
    Div(Box<Ex>, Box<Ex>),
    Mod(Box<Ex>, Box<Ex>),
}

#[derive(Clone, Debug)]
pub enum Co {
    Bin(Ex, &'static str, Ex),
    And(Box<Co>, Box<Co>),
    Or(Box<Co>, Box<Co>),
    Not(Box<Co>),
}

impl Ex {
    pub fn tokens(&self) -> String {
        match self {
            Ex::V(i) => format!("v {i}"),
            Ex::K(k) => format!("k {k}"),
            Ex::F(x) => format!("f {}", x.to_bits()),
            Ex::Add(a, b) => format!("+ {} {}", a.tokens(), b.tokens()),
            Ex::Sub(a, b) => format!("- {} {}", a.tokens(), b.tokens()),
            Ex::Mul(a, b) => format!("* {} {}", a.tokens(), b.tokens()),
            Ex::Div(a, b) => format!("/ {} {}", a.tokens(), b.tokens()),
            Ex::Mod(a, b) => format!("% {} {}", a.tokens(), b.tokens()),
        }
    }
    /// build with the real smart constructors
    pub fn build(&self, ids: &[VarId]) -> ExprBuilder {
        match self {
            Ex::V(i) => ExprBuilder::from_var(ids[*i]),
            Ex::K(k) => ExprBuilder::from_val(Val::ValI(*k)),
            Ex::F(x) => ExprBuilder::from_val(Val::ValF(*x)),
            Ex::Add(a, b) => a.build(ids).add(b.build(ids)),
            Ex::Sub(a, b) => a.build(ids).sub(b.build(ids)),
            Ex::Mul(a, b) => a.build(ids).mul(b.build(ids)),
            Ex::Div(a, b) => a.build(ids).div(b.build(ids)),
            Ex::Mod(a, b) => a.build(ids).modulo(b.build(ids)),
        }
    }
    /// exact value (None: division by zero / inexact quotient) — the arithmetic reading
    pub fn eval(&self, a: &[i64]) -> Option<i64> {
        Some(match self {
            Ex::V(i) => a[*i],
            Ex::K(k) => *k as i64,
            Ex::F(_) => return None,
            Ex::Add(x, y) => x.eval(a)? + y.eval(a)?,
            Ex::Sub(x, y) => x.eval(a)? - y.eval(a)?,
            Ex::Mul(x, y) => x.eval(a)? * y.eval(a)?,
            Ex::Div(x, y) => { let d = y.eval(a)?; if d == 0 { return None; } let n = x.eval(a)?; if n % d != 0 { return None; } n / d }
            Ex::Mod(x, y) => { let d = y.eval(a)?; if d == 0 { return None; } x.eval(a)? % d }
        })
    }
    /// the tree the builder's smart constructors produce (constant folding, `*1`, `/1`);
    /// integer/integer division folds to a float: kept unfolded here
    pub fn fold(&self) -> Ex { self.fold_with(false) }
    /// the tree the real builder produces, including `int / int` → float constant
    pub fn fold_real(&self) -> Ex { self.fold_with(true) }
    fn fold_with(&self, real: bool) -> Ex {
        // a constant operand as f64 (mixed `Val` arithmetic)
        fn cf(e: &Ex) -> Option<f64> { match e { Ex::K(k) => Some(*k as f64), Ex::F(x) => Some(*x), _ => None } }
        match self {
            Ex::V(_) | Ex::K(_) | Ex::F(_) => self.clone(),
            Ex::Add(a, b) => match (a.fold_with(real), b.fold_with(real)) {
                (Ex::K(x), Ex::K(y)) => Ex::K(x + y),
                (x, y) => match (cf(&x), cf(&y)) { (Some(p), Some(q)) => Ex::F(p + q), _ => Ex::Add(Box::new(x), Box::new(y)) },
            },
            Ex::Sub(a, b) => match (a.fold_with(real), b.fold_with(real)) {
                (Ex::K(x), Ex::K(y)) => Ex::K(x - y),
                (x, y) => match (cf(&x), cf(&y)) { (Some(p), Some(q)) => Ex::F(p - q), _ => Ex::Sub(Box::new(x), Box::new(y)) },
            },
            Ex::Mul(a, b) => match (a.fold_with(real), b.fold_with(real)) {
                (Ex::K(x), Ex::K(y)) => Ex::K(x * y),
                (x, y) if cf(&x).is_some() && cf(&y).is_some() => Ex::F(cf(&x).unwrap() * cf(&y).unwrap()),
                (x, Ex::K(1)) => x,
                (Ex::K(1), y) => y,
                (x, y) => Ex::Mul(Box::new(x), Box::new(y)),
            },
            Ex::Div(a, b) => match (a.fold_with(real), b.fold_with(real)) {
                // two constants fold to a FLOAT constant (`real`; `int / int` is kept unfolded for the
                // integer matchers: the integer model reports such trees as `unsupported`)
                (x, y) if (real || matches!(x, Ex::F(_)) || matches!(y, Ex::F(_))) && cf(&x).is_some() && cf(&y).is_some() && cf(&y).unwrap().abs() >= f64::EPSILON => Ex::F(cf(&x).unwrap() / cf(&y).unwrap()),
                (x, Ex::K(1)) if !matches!(x, Ex::K(_)) => x,
                (x, y) => Ex::Div(Box::new(x), Box::new(y)),
            },
            Ex::Mod(a, b) => Ex::Mod(Box::new(a.fold_with(real)), Box::new(b.fold_with(real))),
        }
    }
    pub fn has_divmod(&self) -> bool {
        match self {
            Ex::V(_) | Ex::K(_) | Ex::F(_) => false,
            Ex::Div(..) | Ex::Mod(..) => true,
            Ex::Add(a, b) | Ex::Sub(a, b) | Ex::Mul(a, b) => a.has_divmod() || b.has_divmod(),
        }
    }
    pub fn is_linear(&self) -> bool {
        match self {
            Ex::V(_) | Ex::K(_) | Ex::F(_) => true,
            Ex::Add(a, b) | Ex::Sub(a, b) => a.is_linear() && b.is_linear(),
            Ex::Mul(a, b) => matches!((&**a, &**b), (Ex::V(_), Ex::K(_) | Ex::F(_)) | (Ex::K(_) | Ex::F(_), Ex::V(_)) | (Ex::K(_), Ex::K(_))),
            _ => false,
        }
    }
}

/// net coefficient per variable of a linear tree (None: not linear in the builder's sense)
fn lin_coeffs(e: &Ex, sign: i64, acc: &mut std::collections::BTreeMap<usize, i64>) -> bool {
    match e {
        Ex::V(i) => { *acc.entry(*i).or_insert(0) += sign; true }
        Ex::K(_) | Ex::F(_) => true,
        Ex::Add(a, b) => lin_coeffs(a, sign, acc) && lin_coeffs(b, sign, acc),
        Ex::Sub(a, b) => lin_coeffs(a, sign, acc) && lin_coeffs(b, -sign, acc),
        Ex::Mul(a, b) => match (&**a, &**b) {
            (Ex::V(i), Ex::K(k)) | (Ex::K(k), Ex::V(i)) => { *acc.entry(*i).or_insert(0) += sign * *k as i64; true }
            (Ex::K(_), Ex::K(_)) => true,
            // float coefficients: only whether the variable occurs matters to the integer matchers
            (Ex::V(i), Ex::F(_)) | (Ex::F(_), Ex::V(i)) => { *acc.entry(*i).or_insert(0) += 1 << 40; true }
            _ => false,
        },
        _ => false,
    }
}

impl Co {
    /// a top-level comparison whose linear form has no non-zero coefficient (never checked: finding)
    pub fn is_all_zero_row(&self) -> bool {
        if let Co::Bin(l, op, r) = self {
            let (l, r) = (&l.fold(), &r.fold());
            if *op == "eq" && matches!((l, r), (Ex::V(_), Ex::K(_) | Ex::F(_)) | (Ex::K(_) | Ex::F(_), Ex::V(_))) { return false; }
            let mut acc = std::collections::BTreeMap::new();
            if l.is_linear() && r.is_linear() && lin_coeffs(l, 1, &mut acc) && lin_coeffs(r, -1, &mut acc) {
                return acc.values().all(|c| *c == 0);
            }
        }
        false
    }
    pub fn tokens(&self) -> String {
        match self {
            Co::Bin(l, op, r) => format!("cmp {op} {} {}", l.tokens(), r.tokens()),
            Co::And(a, b) => format!("and {} {}", a.tokens(), b.tokens()),
            Co::Or(a, b) => format!("or {} {}", a.tokens(), b.tokens()),
            Co::Not(a) => format!("not {}", a.tokens()),
        }
    }
    pub fn build(&self, ids: &[VarId]) -> Constraint {
        match self {
            Co::Bin(l, op, r) => {
                let (l, r) = (l.build(ids), r.build(ids));
                match *op { "eq" => l.eq(r), "ne" => l.ne(r), "lt" => l.lt(r), "le" => l.le(r), "gt" => l.gt(r), _ => l.ge(r) }
            }
            Co::And(a, b) => a.build(ids).and(b.build(ids)),
            Co::Or(a, b) => a.build(ids).or(b.build(ids)),
            Co::Not(a) => a.build(ids).not(),
        }
    }
    pub fn eval(&self, a: &[i64]) -> Option<bool> {
        Some(match self {
            Co::Bin(l, op, r) => {
                let (x, y) = (l.eval(a)?, r.eval(a)?);
                match *op { "eq" => x == y, "ne" => x != y, "lt" => x < y, "le" => x <= y, "gt" => x > y, _ => x >= y }
            }
            Co::And(p, q) => p.eval(a)? && q.eval(a)?,
            Co::Or(p, q) => p.eval(a)? || q.eval(a)?,
            Co::Not(p) => !p.eval(a)?,
        })
    }
    fn has(&self, f: &dyn Fn(&Co) -> bool) -> bool {
        f(self) || match self {
            Co::And(a, b) | Co::Or(a, b) => a.has(f) || b.has(f),
            Co::Not(a) => a.has(f),
            _ => false,
        }
    }
    /// the tree as `Constraint::not` builds it (since fix 7500ca2): negated comparisons become the
    /// complementary comparison, double negations cancel
    pub fn norm(&self) -> Co {
        match self {
            Co::Bin(..) => self.clone(),
            Co::And(a, b) => Co::And(Box::new(a.norm()), Box::new(b.norm())),
            Co::Or(a, b) => Co::Or(Box::new(a.norm()), Box::new(b.norm())),
            Co::Not(a) => match a.norm() {
                Co::Bin(l, op, r) => {
                    let n = match op { "eq" => "ne", "ne" => "eq", "lt" => "ge", "le" => "gt", "gt" => "le", _ => "lt" };
                    Co::Bin(l, n, r)
                }
                Co::Not(c) => *c,
                other => Co::Not(Box::new(other)),
            },
        }
    }
    /// `x == a or x == b` on one variable with integer literals: lowered as a domain constraint
    fn special_or(&self) -> bool {
        matches!(self, Co::Or(a, b) if matches!((&**a, &**b), (Co::Bin(Ex::V(x), "eq", Ex::K(_)), Co::Bin(Ex::V(y), "eq", Ex::K(_))) if x == y))
    }
    /// `or` of two comparisons whose four operands are built from integer variables and integer
    /// literals only (after the builder's folding: `int / int` folds to a FLOAT literal): lowered as a
    /// reified disjunction since the repair `fix: or of two comparisons is a disjunction`
    fn reified_or(&self, lc: &LCase) -> bool {
        fn int_ex(lc: &LCase, e: &Ex) -> bool {
            let mut vs = vec![];
            e.vars(&mut vs);
            !e.fold_real().has_float_lit() && vs.iter().all(|v| !lc.is_float_var(*v))
        }
        match self {
            Co::Or(a, b) => match (&**a, &**b) {
                (Co::Bin(l1, _, r1), Co::Bin(l2, _, r2)) => !self.special_or() && [l1, r1, l2, r2].iter().all(|e| int_ex(lc, e)),
                _ => false,
            },
            _ => false,
        }
    }
    /// an `or` node that is still lowered as a conjunction
    fn has_or_as_and(&self, lc: &LCase) -> bool {
        self.has(&|c| matches!(c, Co::Or(..)) && !c.special_or() && !c.reified_or(lc))
    }
    /// a `!=` leaf that is materialised through the no-op `NotEquals`: not linearised (nested inside
    /// and/or/not, or with a non-linear side) and not a side of a reified `or` (`int_ne_reif` works)
    /// a `!=` leaf that goes through the `NotEquals` propagator (nested or non-linear) AND mentions a
    /// float variable: `NotEquals` only checks sides with `min == max`, which a float variable
    /// ("fixed" = narrower than its step) need not reach, and mixed int/float sides never compare equal
    fn has_noop_ne(&self, lc: &LCase, top: bool) -> bool {
        match self {
            Co::Bin(l, "ne", r) => !(top && l.fold().is_linear() && r.fold().is_linear())
                && { let mut vs = vec![]; l.vars(&mut vs); r.vars(&mut vs); vs.iter().any(|v| lc.is_float_var(*v)) },
            Co::Bin(..) => false,
            Co::Or(a, b) => !self.special_or() && !self.reified_or(lc) && (a.has_noop_ne(lc, false) || b.has_noop_ne(lc, false)),
            Co::And(a, b) => a.has_noop_ne(lc, false) || b.has_noop_ne(lc, false),
            Co::Not(a) => a.has_noop_ne(lc, false),
        }
    }
    /// matcher of the recorded lowering findings (on the tree as built)
    pub fn finding_tag(&self, lc: &LCase, top: bool) -> &'static str {
        self.norm().finding_tag_n(lc, top)
    }
    fn finding_tag_n(&self, lc: &LCase, top: bool) -> &'static str {
        if top && self.is_all_zero_row() { return "lin-all-zero-coefficients"; }
        if self.has(&|c| matches!(c, Co::Not(_))) { return "not-ignored"; }
        if self.has_or_as_and(lc) { return "or-lowered-as-and"; }
        // since fix 1172f09 a `!=` that goes through `NotEquals` is checked on integer sides (no
        // `neq-noop` matcher any more); on float variables it still is not: `float-ne-ignored`
        if self.has_noop_ne(lc, top) { return "float-ne-ignored"; }
        "-"
    }
}

#[derive(Clone, Debug)]
pub enum VarSpec {
    /// integer variable with this (sorted, duplicate-free) domain
    I(Vec<i32>),
    /// float variable `m.float(lo, hi)`
    F(f64, f64),
}

#[derive(Clone)]
pub struct LCase {
    pub vars: Vec<VarSpec>,
    pub cons: Vec<Co>,
    /// witness point the float cases are generated around (one value per user variable)
    pub wit: Option<Vec<f64>>,
}

impl LCase {
    fn empty() -> LCase { LCase { vars: vec![], cons: vec![], wit: None } }
    pub fn is_float_var(&self, i: usize) -> bool { matches!(self.vars.get(i), Some(VarSpec::F(..))) }
    /// a float variable or a float literal occurs (also one produced by the builder's folding of
    /// `int / int`): the case is outside the integer model
    pub fn floaty(&self) -> bool {
        self.vars.iter().any(|v| matches!(v, VarSpec::F(..))) || self.cons.iter().any(|c| c.has_float_lit())
    }
    /// the integer domains (integer-only cases)
    fn int_doms(&self) -> Vec<Vec<i32>> {
        self.vars.iter().map(|v| match v { VarSpec::I(d) => d.clone(), VarSpec::F(..) => vec![] }).collect()
    }
}

fn build_model(lc: &LCase) -> (Model, Vec<VarId>) {
    // float cases are also solved: bounded by a timeout (no influence on the lowering)
    let mut m = if lc.floaty() { Model::with_config(selen::utils::config::SolverConfig::default().with_timeout_ms(1500)) } else { Model::default() };
    let mut ids = vec![];
    for v in &lc.vars {
        match v {
            VarSpec::I(d) => {
                let contiguous = d.windows(2).all(|w| w[1] == w[0] + 1);
                ids.push(if contiguous { m.int(d[0], *d.last().unwrap()) } else { m.intset(d.clone()) });
            }
            VarSpec::F(lo, hi) => ids.push(m.float(*lo, *hi)),
        }
    }
    for c in &lc.cons {
        m.new(c.build(&ids));
    }
    (m, ids)
}

/// VarId(0..n) obtained from a scratch model (VarId is an index newtype)
fn var_ids(n: usize) -> Vec<VarId> {
    let mut d = Model::default();
    (0..n).map(|_| d.int(0, 0)).collect()
}

fn dump_dom(v: &selen::variables::Var) -> String {
    match v {
        selen::variables::Var::VarI(s) => {
            let mut x = s.to_vec();
            x.sort();
            if x.len() > 12 && (x[x.len() - 1] - x[0] + 1) as usize == x.len() {
                format!("[{}..{}#{}]", x[0], x[x.len() - 1], x.len())
            } else {
                crate::out::show_ints(&x)
            }
        }
        selen::variables::Var::VarF(f) => format!("F[{},{}]", f.min.to_bits(), f.max.to_bits()),
    }
}

/// Rust prints an `f64` inside `Debug` output as the shortest text that parses back to the same
/// value; floats are never compared as text: every float token (`2.5`, `-0.0`, `1e-6`, `inf`, `NaN`)
/// of a `Debug` string is re-encoded as `f<bits>` (integers — no `.`/`e` — are left alone)
pub fn canon_floats(s: &str) -> String {
    let b: Vec<char> = s.chars().collect();
    let mut o = String::with_capacity(s.len());
    let is_word = |c: char| c.is_alphanumeric() || c == '_';
    let mut i = 0;
    while i < b.len() {
        let prev_word = i > 0 && (is_word(b[i - 1]) || b[i - 1] == '.');
        let starts_num = !prev_word && (b[i].is_ascii_digit() || (b[i] == '-' && i + 1 < b.len() && (b[i + 1].is_ascii_digit() || b[i + 1] == 'i')));
        let special = |j: usize| -> Option<usize> {
            for w in ["inf", "NaN"] {
                let wc: Vec<char> = w.chars().collect();
                if j + wc.len() <= b.len() && b[j..j + wc.len()] == wc[..] && (j + wc.len() == b.len() || !is_word(b[j + wc.len()])) { return Some(j + wc.len()); }
            }
            None
        };
        if !prev_word {
            let j0 = if b[i] == '-' { i + 1 } else { i };
            if let Some(e) = if j0 < b.len() { special(j0) } else { None } {
                let t: String = b[i..e].iter().collect();
                if let Ok(x) = t.parse::<f64>() { o.push_str(&format!("f{}", x.to_bits())); i = e; continue; }
            }
        }
        if starts_num && b[if b[i] == '-' { i + 1 } else { i }].is_ascii_digit() {
            let mut j = if b[i] == '-' { i + 1 } else { i };
            let mut floaty = false;
            while j < b.len() && b[j].is_ascii_digit() { j += 1; }
            if j + 1 < b.len() && b[j] == '.' && b[j + 1].is_ascii_digit() { floaty = true; j += 1; while j < b.len() && b[j].is_ascii_digit() { j += 1; } }
            if j < b.len() && (b[j] == 'e' || b[j] == 'E') {
                let mut k = j + 1;
                if k < b.len() && (b[k] == '-' || b[k] == '+') { k += 1; }
                if k < b.len() && b[k].is_ascii_digit() { floaty = true; j = k; while j < b.len() && b[j].is_ascii_digit() { j += 1; } }
            }
            let t: String = b[i..j].iter().collect();
            if floaty {
                match t.parse::<f64>() { Ok(x) => o.push_str(&format!("f{}", x.to_bits())), Err(_) => o.push_str(&t) }
            } else {
                o.push_str(&t);
            }
            i = j;
            continue;
        }
        o.push(b[i]);
        i += 1;
    }
    o
}

fn panic_tag(lc: &LCase) -> &'static str {
    // recorded finding: a posted equality emptied a domain and a later `x == y` reads its bounds
    let eqs = lc.cons.iter().filter(|c| matches!(c, Co::Bin(Ex::V(_), "eq", Ex::V(_)))).count();
    if eqs >= 1 { "empty-domain-view-panic" } else { "-" }
}

/// the real lowering: `(dump line, Debug strings of the lowered propagators)`
fn lower_dump(lc: &LCase) -> Option<(String, Vec<String>)> {
    guarded(|| {
        let (m, _) = build_model(lc);
        match m.verif_lower() {
            Err(e) => (format!("error {}", format!("{:?}", e).split(|c: char| !c.is_alphanumeric()).next().unwrap_or("?")), vec![]),
            Ok((vars, props)) => {
                let n = vars.count();
                let ids = var_ids(n);
                let doms: Vec<String> = ids.iter().map(|id| dump_dom(&vars[*id])).collect();
                let ps: Vec<String> = props.get_prop_ids_iter().map(|p| canon_floats(&format!("{:?}", props.get_state(p)))).collect();
                (format!("vars={} props={}", doms.join("|"), ps.join(" ;; ")), ps)
            }
        }
    })
}

pub fn do_lower(lc: &LCase, out: &mut Out) {
    match lower_dump(lc) {
        None => {
            let l = out.emit("lw.lower", "panic");
            out.fail(l, "C17", panic_tag(lc), "panic while lowering");
        }
        Some((s, ps)) => {
            for p in &ps {
                out.stat(&format!("lowered.{}", p.split_whitespace().next().unwrap_or("?")));
            }
            out.emit("lw.lower", s);
        }
    }
}

/// one pass of the real `prune` of every lowered propagator (in posting order) over the lowered
/// variables, when all of them are linear rows (`IntLin*` / `FloatLin*`): ties the model of the
/// INTEGER rows over float variables (`ILin` in `Model/LowerFloat.lean`) to the code
pub fn do_prune(lc: &LCase, out: &mut Out) {
    let r = guarded(|| {
        let (m, _) = build_model(lc);
        match m.verif_lower() {
            Err(e) => format!("error {}", format!("{:?}", e).split(|c: char| !c.is_alphanumeric()).next().unwrap_or("?")),
            Ok((mut vars, props)) => {
                let pids: Vec<_> = props.get_prop_ids_iter().collect();
                let rows = pids.iter().all(|p| {
                    let d = format!("{:?}", props.get_state(*p));
                    ["IntLinEq", "IntLinLe", "IntLinNe", "FloatLinEq", "FloatLinLe", "FloatLinNe"].iter().any(|k| d.starts_with(&format!("{k} ")))
                });
                if !rows { return "skip".to_string(); }
                let mut events = Vec::new();
                for (k, p) in pids.iter().enumerate() {
                    let ok = {
                        let mut ctx = selen::variables::views::Context::verif_new(&mut vars, &mut events);
                        props.get_state(*p).as_ref().prune(&mut ctx).is_some()
                    };
                    if !ok { return format!("fail {k}"); }
                }
                let ids = var_ids(vars.count());
                let doms: Vec<String> = ids.iter().map(|id| dump_dom(&vars[*id])).collect();
                format!("vars={}", doms.join("|"))
            }
        }
    });
    match r {
        None => {
            let l = out.emit("lw.prune", "panic");
            out.fail(l, "C17", panic_tag(lc), "panic while pruning the lowered rows");
        }
        Some(s) => {
            out.stat(&format!("prune.{}", s.split(|c: char| c == ' ' || c == '=').next().unwrap_or("?")));
            out.emit("lw.prune", s);
        }
    }
}

pub fn do_enum(lc: &LCase, out: &mut Out) {
    let r = guarded(|| {
        let (m, _) = build_model(lc);
        selen::verif_hooks::set_root_lp_disabled(true);
        let sols: Vec<Vec<i64>> = m.enumerate().take(20000).map(|s| {
            // all variables, including the auxiliary ones created by the lowering
            let mut v = vec![];
            let mut i = 0;
            let ids = var_ids(64);
            while i < 64 {
                match guarded(|| s[ids[i]]) { Some(Val::ValI(x)) => v.push(x as i64), Some(Val::ValF(f)) => v.push(f as i64), None => break }
                i += 1;
            }
            v
        }).collect();
        selen::verif_hooks::set_root_lp_disabled(false);
        sols
    });
    let Some(sols) = r else {
        let l = out.emit("lw.enum", "panic");
        out.fail(l, "C17", panic_tag(lc), "panic in enumerate of a fluent model");
        return;
    };
    let parts: Vec<String> = sols.iter().map(|v| v.iter().map(|x| x.to_string()).collect::<Vec<_>>().join(",")).collect();
    let l = out.emit("lw.enum", format!("n={} sols={}", sols.len(), parts.join(";")));
    // oracle (C10): projection on the user's variables = truth set of the trees
    let doms = lc.int_doms();
    let n = doms.len();
    let mut want: Vec<Vec<i64>> = vec![];
    let mut a = vec![0i64; n];
    fn rec(doms: &Vec<Vec<i32>>, cons: &Vec<Co>, k: usize, a: &mut Vec<i64>, out: &mut Vec<Vec<i64>>) {
        if k == doms.len() {
            if cons.iter().all(|c| c.eval(a) == Some(true)) { out.push(a.clone()); }
            return;
        }
        for v in &doms[k] { a[k] = *v as i64; rec(doms, cons, k + 1, a, out); }
    }
    rec(&doms, &lc.cons, 0, &mut a, &mut want);
    let mut got: Vec<Vec<i64>> = sols.iter().map(|s| s[..n.min(s.len())].to_vec()).collect();
    got.sort();
    got.dedup();
    want.sort();
    let tag = lc.cons.iter().map(|c| c.finding_tag(lc, true)).find(|t| *t != "-").unwrap_or(
        if lc.cons.iter().any(|c| c.has(&|c| matches!(c, Co::Bin(l, _, r) if l.has_divmod() || r.has_divmod()))) { "fluent-divmod" } else { "-" });
    if got != want {
        let extra: Vec<_> = got.iter().filter(|g| !want.contains(g)).take(1).collect();
        let missing: Vec<_> = want.iter().filter(|w| !got.contains(w)).take(1).collect();
        out.fail(l, "C10", tag, format!("solution set of {:?} differs from the truth set of the trees: extra {:?} missing {:?} ({} vs {})",
            lc.cons.iter().map(|c| c.tokens()).collect::<Vec<_>>(), extra, missing, got.len(), want.len()));
    }
}

// ---------------------------------------------------------------------------------------------
// float cases: oracle = direct evaluation of the trees at the returned solution (and at the witness
// point when `solve()` answers NoSolution), within the tolerance of the `#flapi` stream of
// `float.rs`:  Σ_float-vars |cᵢ|·(max(3·step, 1e-5·|xᵢ|) + 1.5·step)
// ---------------------------------------------------------------------------------------------

const STEP: f64 = 1e-6;

#[derive(Clone, Copy, PartialEq, Debug)]
pub enum Tri { T, F, U }

impl Tri {
    fn not(self) -> Tri { match self { Tri::T => Tri::F, Tri::F => Tri::T, Tri::U => Tri::U } }
}

/// net linear form `Σ cᵢ·xᵢ + k` of a tree already folded by `fold_real`; `gross` sums `|c|` per
/// OCCURRENCE of a variable (what matters when the occurrences are lowered separately)
fn lin_f(e: &Ex, sign: f64, cs: &mut std::collections::BTreeMap<usize, f64>, gross: &mut std::collections::BTreeMap<usize, f64>, k: &mut f64) -> bool {
    let mut term = |i: usize, c: f64| { *cs.entry(i).or_insert(0.0) += sign * c; *gross.entry(i).or_insert(0.0) += c.abs(); };
    match e {
        Ex::V(i) => { term(*i, 1.0); true }
        Ex::K(c) => { *k += sign * *c as f64; true }
        Ex::F(c) => { *k += sign * *c; true }
        Ex::Add(a, b) => lin_f(a, sign, cs, gross, k) && lin_f(b, sign, cs, gross, k),
        Ex::Sub(a, b) => lin_f(a, sign, cs, gross, k) && lin_f(b, -sign, cs, gross, k),
        Ex::Mul(a, b) => match (&**a, &**b) {
            (Ex::V(i), Ex::K(c)) | (Ex::K(c), Ex::V(i)) => { term(*i, *c as f64); true }
            (Ex::V(i), Ex::F(c)) | (Ex::F(c), Ex::V(i)) => { term(*i, *c); true }
            _ => false,
        },
        _ => false,
    }
}

impl Ex {
    pub fn has_float_lit(&self) -> bool {
        match self {
            Ex::F(_) => true,
            Ex::V(_) | Ex::K(_) => false,
            Ex::Add(a, b) | Ex::Sub(a, b) | Ex::Mul(a, b) | Ex::Div(a, b) | Ex::Mod(a, b) => a.has_float_lit() || b.has_float_lit(),
        }
    }
    /// a literal that is not finite, or a division of two literals by a zero literal (the builder
    /// folds it to `inf`)
    pub fn nonfinite(&self) -> bool {
        match self {
            Ex::F(x) => !x.is_finite(),
            Ex::V(_) | Ex::K(_) => false,
            Ex::Div(a, b) => a.nonfinite() || b.nonfinite() || matches!((&**a, &**b), (Ex::K(_) | Ex::F(_), Ex::K(0))) || matches!((&**a, &**b), (Ex::K(_) | Ex::F(_), Ex::F(z)) if z.abs() < f64::EPSILON),
            Ex::Add(a, b) | Ex::Sub(a, b) | Ex::Mul(a, b) | Ex::Mod(a, b) => a.nonfinite() || b.nonfinite(),
        }
    }
    /// value at a point, real arithmetic (`None`: division / remainder by zero)
    pub fn evalf(&self, v: &[f64]) -> Option<f64> {
        Some(match self {
            Ex::V(i) => v[*i],
            Ex::K(k) => *k as f64,
            Ex::F(x) => *x,
            Ex::Add(a, b) => a.evalf(v)? + b.evalf(v)?,
            Ex::Sub(a, b) => a.evalf(v)? - b.evalf(v)?,
            Ex::Mul(a, b) => a.evalf(v)? * b.evalf(v)?,
            Ex::Div(a, b) => { let d = b.evalf(v)?; if d == 0.0 { return None; } a.evalf(v)? / d }
            Ex::Mod(a, b) => { let d = b.evalf(v)?; if d == 0.0 { return None; } a.evalf(v)? % d }
        })
    }
    /// `get_expr_var` of this (already folded) side of a comparison that is materialised through
    /// views: every arithmetic node and every non-variable child of one (constants included) gets an
    /// auxiliary INTEGER variable `-1000..1000`; is one of their values at `v` outside that domain
    /// (not an integer, or out of range)?
    pub fn aux_clipped(&self, v: &[f64]) -> bool {
        fn out(e: &Ex, v: &[f64]) -> bool { match e.evalf(v) { Some(x) => x.fract() != 0.0 || x.abs() > 1000.0, None => true } }
        fn kids(e: &Ex, v: &[f64]) -> bool {
            match e {
                Ex::V(_) | Ex::K(_) | Ex::F(_) => false,
                Ex::Add(a, b) | Ex::Sub(a, b) | Ex::Mul(a, b) | Ex::Div(a, b) | Ex::Mod(a, b) =>
                    [a, b].iter().any(|c| !matches!(&***c, Ex::V(_)) && (out(c, v) || kids(c, v))),
            }
        }
        match self { Ex::V(_) | Ex::K(_) | Ex::F(_) => false, e => out(e, v) || kids(e, v) }
    }
    pub fn vars(&self, acc: &mut Vec<usize>) {
        match self {
            Ex::V(i) => acc.push(*i),
            Ex::K(_) | Ex::F(_) => {}
            Ex::Add(a, b) | Ex::Sub(a, b) | Ex::Mul(a, b) | Ex::Div(a, b) | Ex::Mod(a, b) => { a.vars(acc); b.vars(acc); }
        }
    }
}

/// what the code does with a comparison leaf `l op r`, predicted from the tree alone
#[derive(Debug)]
pub struct LeafClass {
    /// the immediate `Var == Val` / `Val == Var` pattern
    pub immediate: bool,
    /// both sides linear in the builder's sense (after its constant folding)
    pub linear: bool,
    /// `try_convert_to_linear_ast` chooses `LinearInt`: no float literal is left after folding
    pub int_lowered: bool,
    pub has_float_var: bool,
    /// every variable with a non-zero net coefficient is an integer variable
    pub all_int_vars: bool,
    pub plain_vv: bool,
    pub all_zero: bool,
    pub cs: std::collections::BTreeMap<usize, f64>,
    pub gross: std::collections::BTreeMap<usize, f64>,
    pub k: f64,
    pub has_float_lit: bool,
    /// a constant of the tree folds to `inf` / NaN (division by a zero literal): not followed
    pub nonfinite: bool,
}

pub fn classify(lc: &LCase, l: &Ex, op: &str, r: &Ex) -> LeafClass {
    let (l, r) = (l.fold_real(), r.fold_real());
    let immediate = op == "eq" && matches!((&l, &r), (Ex::V(_), Ex::K(_) | Ex::F(_)) | (Ex::K(_) | Ex::F(_), Ex::V(_)));
    let mut cs = std::collections::BTreeMap::new();
    let mut gross = std::collections::BTreeMap::new();
    let mut k = 0.0;
    let linear = lin_f(&l, 1.0, &mut cs, &mut gross, &mut k) && lin_f(&r, -1.0, &mut cs, &mut gross, &mut k);
    let mut vs = vec![];
    l.vars(&mut vs);
    r.vars(&mut vs);
    LeafClass {
        immediate,
        linear,
        int_lowered: linear && !l.has_float_lit() && !r.has_float_lit(),
        has_float_var: vs.iter().any(|v| lc.is_float_var(*v)),
        all_int_vars: cs.iter().filter(|(_, c)| **c != 0.0).all(|(v, _)| !lc.is_float_var(*v)),
        plain_vv: matches!((&l, &r), (Ex::V(_), Ex::V(_))),
        all_zero: linear && cs.values().all(|c| *c == 0.0),
        cs,
        gross,
        k,
        has_float_lit: l.has_float_lit() || r.has_float_lit(),
        nonfinite: l.nonfinite() || r.nonfinite(),
    }
}

/// three-valued truth of a comparison leaf at the point `v`.
/// `margin = false` (a returned solution): `F` only when the leaf is violated beyond the tolerance;
/// `margin = true` (the witness): `T` only when it holds with a margin of `10·step·Σ|cᵢ|`.
/// Leaves without float variables are decided exactly.
fn leaf_tri(lc: &LCase, l: &Ex, op: &str, r: &Ex, v: &[f64], margin: bool, top: bool) -> Tri {
    let c = classify(lc, l, op, r);
    if c.nonfinite { return Tri::U; }
    if !c.linear {
        // non-linear: decided only for integer trees (exact integer reading)
        if c.has_float_lit || c.has_float_var || v.iter().any(|x| x.fract() != 0.0) {
            return Tri::U;
        }
        let a: Vec<i64> = v.iter().map(|x| *x as i64).collect();
        return match Co::Bin(l.clone(), match op { "eq" => "eq", "ne" => "ne", "lt" => "lt", "le" => "le", "gt" => "gt", _ => "ge" }, r.clone()).eval(&a) { Some(true) => Tri::T, _ => Tri::F };
    }
    let mut d = c.k;
    let mut mag = c.k.abs();
    let mut tol = 0.0;
    let mut sum_abs = 0.0;
    // a top-level row is posted with merged coefficients; a nested leaf keeps every occurrence
    let weights = if top && !c.immediate { c.cs.iter().map(|(x, ci)| (*x, ci.abs())).collect::<Vec<_>>() } else { c.gross.iter().map(|(x, g)| (*x, *g)).collect::<Vec<_>>() };
    for (x, ci) in &c.cs {
        d += ci * v[*x];
        mag += (ci * v[*x]).abs();
    }
    for (x, g) in &weights {
        sum_abs += g;
        if lc.is_float_var(*x) && *g != 0.0 {
            tol += g * ((3.0 * STEP).max(1e-5 * v[*x].abs()) + 1.5 * STEP);
        }
    }
    let slack = 1e-9 * mag + 1e-300;
    if !c.has_float_lit && !c.has_float_var {
        // exact
        let t = match op { "eq" => d == 0.0, "ne" => d != 0.0, "lt" => d < 0.0, "le" => d <= 0.0, "gt" => d > 0.0, _ => d >= 0.0 };
        return if t { Tri::T } else { Tri::F };
    }
    // float literals: one step of slack per unit of coefficient (strictness epsilon, singleton
    // float variables of the constants)
    let base = 4.5 * STEP * (1.0 + sum_abs);
    let band = if margin { 10.0 * STEP * (1.0 + sum_abs) + slack } else { tol + base + slack };
    match op {
        "le" | "lt" => if d <= -band { Tri::T } else if d >= band { Tri::F } else { Tri::U },
        "ge" | "gt" => if d >= band { Tri::T } else if d <= -band { Tri::F } else { Tri::U },
        "eq" => if d.abs() > band { Tri::F } else if margin && d == 0.0 { Tri::T } else { Tri::U },
        _ => if d == 0.0 { Tri::F } else if d.abs() >= band { Tri::T } else { Tri::U },
    }
}

impl Co {
    pub fn has_float_lit(&self) -> bool {
        self.has(&|c| matches!(c, Co::Bin(l, _, r) if l.fold_real().has_float_lit() || r.fold_real().has_float_lit()))
    }
    pub fn has_divmod(&self) -> bool {
        self.has(&|c| matches!(c, Co::Bin(l, _, r) if l.fold_real().has_divmod() || r.fold_real().has_divmod()))
    }
    pub fn tri(&self, lc: &LCase, v: &[f64], margin: bool) -> Tri { self.tri_at(lc, v, margin, true) }
    fn tri_at(&self, lc: &LCase, v: &[f64], margin: bool, top: bool) -> Tri {
        match self {
            Co::Bin(l, op, r) => leaf_tri(lc, l, op, r, v, margin, top),
            Co::And(a, b) => match (a.tri_at(lc, v, margin, false), b.tri_at(lc, v, margin, false)) { (Tri::F, _) | (_, Tri::F) => Tri::F, (Tri::T, Tri::T) => Tri::T, _ => Tri::U },
            Co::Or(a, b) => match (a.tri_at(lc, v, margin, false), b.tri_at(lc, v, margin, false)) { (Tri::T, _) | (_, Tri::T) => Tri::T, (Tri::F, Tri::F) => Tri::F, _ => Tri::U },
            Co::Not(a) => a.tri_at(lc, v, margin, false).not(),
        }
    }
    /// NEW finding `mixed-strict-next-unit-step`: a STRICT comparison materialised through views
    /// (`less_than(a, b)` = `Next(a) <= b`) whose smaller side is represented by an INTEGER variable
    /// (integer user variable, auxiliary variable, integer constant) and whose larger side is
    /// float-valued: `Next` of an integer is `+1`, so `a < b` becomes `a + 1 <= b` and points with
    /// `0 < b - a < 1` are lost; is there such a leaf with that gap at `v`?
    pub fn strict_unit_gap_at(&self, lc: &LCase, v: &[f64], top: bool) -> bool {
        match self {
            Co::Bin(l, op, r) => {
                let (l, r) = (l.fold_real(), r.fold_real());
                if top && l.is_linear() && r.is_linear() { return false; }
                let is_float = |e: &Ex| match e { Ex::V(i) => lc.is_float_var(*i), Ex::F(_) => true, _ => false };
                let (small, large) = match *op { "lt" => (&l, &r), "gt" => (&r, &l), _ => return false };
                if is_float(small) || !is_float(large) { return false; }
                match (small.evalf(v), large.evalf(v)) { (Some(a), Some(b)) => b - a > 0.0 && b - a < 1.0, _ => false }
            }
            Co::And(a, b) | Co::Or(a, b) => a.strict_unit_gap_at(lc, v, false) || b.strict_unit_gap_at(lc, v, false),
            Co::Not(a) => a.strict_unit_gap_at(lc, v, false),
        }
    }
    /// a leaf that is materialised through views (`get_expr_var`): nested in a combinator, or a
    /// top-level comparison with a non-linear side — whose auxiliary integer variables cannot take the
    /// values of their sub-expressions at `v`
    pub fn aux_clipped_at(&self, v: &[f64], top: bool) -> bool {
        match self {
            Co::Bin(l, _, r) => {
                let (l, r) = (l.fold_real(), r.fold_real());
                let through_views = !top || !(l.is_linear() && r.is_linear());
                // the `Var op Val` / `Val op Var` arms create a singleton of the literal's kind only
                let var_val = matches!((&l, &r), (Ex::V(_), Ex::K(_) | Ex::F(_)) | (Ex::K(_) | Ex::F(_), Ex::V(_)));
                through_views && !var_val && (l.aux_clipped(v) || r.aux_clipped(v))
            }
            Co::And(a, b) | Co::Or(a, b) => a.aux_clipped_at(v, false) || b.aux_clipped_at(v, false),
            Co::Not(a) => a.aux_clipped_at(v, false),
        }
    }
    /// matcher of the recorded findings for a float case: which defect explains that the returned
    /// solution violates this tree (`nosol = false`) / that the satisfiable model is reported
    /// unsatisfiable (`nosol = true`), judged from what the lowering does with the tree
    pub fn float_tag(&self, lc: &LCase, nosol: bool) -> &'static str {
        self.norm().float_tag_n(lc, nosol)
    }
    fn float_tag_n(&self, lc: &LCase, nosol: bool) -> &'static str {
        if let Co::Bin(l, op, r) = self {
            let c = classify(lc, l, op, r);
            if c.immediate { return "-"; }
            if !c.linear { return if *op == "ne" && c.has_float_var { "float-ne-ignored" } else { "-" }; }
            if c.int_lowered {
                if c.all_zero { return "lin-all-zero-coefficients"; }
                if !c.has_float_var { return "-"; }
                // an INTEGER linear row over float variables
                if nosol {
                    let mixed = { let mut vs = vec![]; l.vars(&mut vs); r.vars(&mut vs); vs.iter().any(|v| lc.is_float_var(*v)) && vs.iter().any(|v| !lc.is_float_var(*v)) };
                    return if c.plain_vv && mixed && (*op == "lt" || *op == "gt") { "mixed-strict-cmp-int-lowered" } else { "float-row-lowered-to-intlin" };
                }
                return if *op == "ne" { "float-ne-ignored" } else if c.plain_vv { "float-varvar-cmp-ignored" } else { "float-row-lowered-to-intlin" };
            }
            // a FLOAT linear row
            if c.all_zero { return "lin-all-zero-coefficients"; }
            if nosol {
                // FloatLinEq over an integer AND a float variable: the integer arm has no tolerance
                let nz_int = c.cs.iter().any(|(v, ci)| *ci != 0.0 && !lc.is_float_var(*v));
                let nz_flt = c.cs.iter().any(|(v, ci)| *ci != 0.0 && lc.is_float_var(*v));
                return if *op == "eq" && nz_int && nz_flt { "float-eq-int-var-rounding" } else { "-" };
            }
            return if *op == "ne" { "float-ne-ignored" } else if c.all_int_vars && *op != "eq" { "int-var-in-float-linear" } else { "-" };
        }
        self.finding_tag(lc, true)
    }
}

/// `solve()` of a float case; nothing is compared with the model (result line `-`), the oracle
/// evaluates the trees directly
pub fn do_solve(lc: &LCase, out: &mut Out) {
    let l = out.emit("lw.solve", "-");
    let n = lc.vars.len();
    let r = guarded(|| {
        let (m, ids) = build_model(lc);
        selen::verif_hooks::set_root_lp_disabled(true);
        let r = m.solve();
        selen::verif_hooks::set_root_lp_disabled(false);
        r.map(|s| (0..n).map(|i| match s[ids[i]] { Val::ValI(x) => x as f64, Val::ValF(f) => f }).collect::<Vec<f64>>())
    });
    selen::verif_hooks::set_root_lp_disabled(false);
    let toks = || lc.cons.iter().map(|c| c.tokens()).collect::<Vec<_>>();
    match r {
        None => {
            out.stat("solve.panic");
            out.fail(l, "C17", panic_tag(lc), "panic in solve() of a fluent float model");
        }
        Some(Ok(v)) => {
            out.stat("solve.Ok");
            for c in &lc.cons {
                match c.tri(lc, &v, false) {
                    Tri::F => {
                        out.fail(l, "C10", c.float_tag(lc, false), format!("the returned solution {:?} violates the tree {} (vars {:?})", v, c.tokens(), lc.vars));
                    }
                    Tri::U => out.stat("solve.tree-within-tolerance-or-undecided"),
                    Tri::T => out.stat("solve.tree-true"),
                }
            }
        }
        Some(Err(SolverError::NoSolution { .. })) => {
            out.stat("solve.NoSolution");
            if let Some(w) = &lc.wit {
                if lc.cons.iter().all(|c| c.tri(lc, w, true) == Tri::T) {
                    out.stat("solve.NoSolution-with-witness");
                    let tag = if lc.cons.iter().any(|c| c.norm().aux_clipped_at(w, true)) { "aux-var-clipped" }
                        else if lc.cons.iter().any(|c| c.norm().strict_unit_gap_at(lc, w, true)) { "mixed-strict-next-unit-step" }
                        else if let Some(t) = lc.cons.iter().filter(|c| !matches!(c, Co::Bin(..))).map(|c| c.finding_tag(lc, true)).find(|t| *t != "-") { t }
                        else { lc.cons.iter().map(|c| c.float_tag(lc, true)).find(|t| *t != "-").unwrap_or("-") };
                    out.fail(l, "C10", tag, format!("solve() = NoSolution although the witness {:?} satisfies every tree with margin: {:?} (vars {:?})", w, toks(), lc.vars));
                }
            }
        }
        Some(Err(e)) => {
            out.stat(&format!("solve.err.{}", format!("{:?}", e).split(|c: char| !c.is_alphanumeric()).next().unwrap_or("?")));
        }
    }
}

fn rand_ex(r: &mut Rng, n: usize, depth: usize, nonlin: bool) -> Ex {
    if depth == 0 || r.chance(1, 4) {
        return if r.chance(1, 3) { Ex::K(r.range(-3, 4) as i32) } else { Ex::V(r.below(n as u64) as usize) };
    }
    let a = Box::new(rand_ex(r, n, depth - 1, nonlin));
    let b = Box::new(rand_ex(r, n, depth - 1, nonlin));
    match r.below(if nonlin { 12 } else { 9 }) {
        0..=3 => Ex::Add(a, b),
        4..=6 => Ex::Sub(a, b),
        7 | 8 => if r.chance(1, 2) { Ex::Mul(a, Box::new(Ex::K(r.range(-3, 3) as i32))) } else { Ex::Mul(Box::new(Ex::K(r.range(-3, 3) as i32)), b) },
        9 => Ex::Mul(a, b),
        10 => Ex::Div(a, b),
        _ => Ex::Mod(a, b),
    }
}

fn rand_co(r: &mut Rng, n: usize, depth: usize, nonlin: bool) -> Co {
    let ops = ["eq", "ne", "lt", "le", "gt", "ge"];
    if depth == 0 || r.chance(2, 3) {
        let d = r.range(0, 2) as usize;
        return Co::Bin(rand_ex(r, n, d, nonlin), ops[r.below(6) as usize], rand_ex(r, n, d, nonlin));
    }
    match r.below(6) {
        0..=2 => Co::And(Box::new(rand_co(r, n, depth - 1, nonlin)), Box::new(rand_co(r, n, depth - 1, nonlin))),
        3 => {
            // the special `x == a or x == b` shape half of the time
            if r.chance(1, 2) {
                let x = r.below(n as u64) as usize;
                Co::Or(Box::new(Co::Bin(Ex::V(x), "eq", Ex::K(r.range(-3, 4) as i32))), Box::new(Co::Bin(Ex::V(x), "eq", Ex::K(r.range(-3, 4) as i32))))
            } else {
                Co::Or(Box::new(rand_co(r, n, depth - 1, nonlin)), Box::new(rand_co(r, n, depth - 1, nonlin)))
            }
        }
        4 => Co::Or(Box::new(rand_co(r, n, depth - 1, nonlin)), Box::new(rand_co(r, n, depth - 1, nonlin))),
        _ => Co::Not(Box::new(rand_co(r, n, depth - 1, nonlin))),
    }
}

// ---- generator of float / mixed cases --------------------------------------------------------

/// literal of either kind; floats mostly dyadic (exact arithmetic), sometimes decimal
fn rand_lit(r: &mut Rng, float_bias: u64) -> Ex {
    if r.chance(float_bias, 4) {
        match r.below(6) {
            0 => Ex::F(r.range(-30, 30) as f64 * 0.1),
            1 => Ex::F(r.range(-3, 4) as f64),          // integral float literal: still a FLOAT kind
            2 => Ex::F(1.0),
            _ => Ex::F(r.range(-12, 12) as f64 * 0.25),
        }
    } else {
        Ex::K(r.range(-3, 4) as i32)
    }
}

/// mixed trees: literals of both kinds in every position (constant leaf, `var * lit`, `lit * var`,
/// folded `lit op lit` incl. `lit / lit`), repeated variables
fn rand_fex(r: &mut Rng, n: usize, depth: usize, fb: u64, nonlin: bool) -> Ex {
    if depth == 0 || r.chance(1, 4) {
        return if r.chance(1, 3) { rand_lit(r, fb) } else { Ex::V(r.below(n as u64) as usize) };
    }
    match r.below(if nonlin { 14 } else { 11 }) {
        0..=3 => Ex::Add(Box::new(rand_fex(r, n, depth - 1, fb, nonlin)), Box::new(rand_fex(r, n, depth - 1, fb, nonlin))),
        4..=6 => Ex::Sub(Box::new(rand_fex(r, n, depth - 1, fb, nonlin)), Box::new(rand_fex(r, n, depth - 1, fb, nonlin))),
        7 => Ex::Mul(Box::new(Ex::V(r.below(n as u64) as usize)), Box::new(rand_lit(r, fb))),
        8 => Ex::Mul(Box::new(rand_lit(r, fb)), Box::new(Ex::V(r.below(n as u64) as usize))),
        9 => {
            // constants folded by the builder: `lit op lit`
            let (a, b) = (Box::new(rand_lit(r, fb)), Box::new(rand_lit(r, fb)));
            match r.below(4) { 0 => Ex::Add(a, b), 1 => Ex::Sub(a, b), 2 => Ex::Mul(a, b), _ => Ex::Div(a, b) }
        }
        10 => if r.chance(1, 2) { Ex::Mul(Box::new(rand_fex(r, n, depth - 1, fb, nonlin)), Box::new(rand_lit(r, fb))) } else { Ex::Div(Box::new(rand_fex(r, n, depth - 1, fb, nonlin)), Box::new(Ex::K(1))) },
        11 => Ex::Mul(Box::new(rand_fex(r, n, depth - 1, fb, nonlin)), Box::new(rand_fex(r, n, depth - 1, fb, nonlin))),
        12 => Ex::Div(Box::new(rand_fex(r, n, depth - 1, fb, nonlin)), Box::new(rand_fex(r, n, depth - 1, fb, nonlin))),
        _ => Ex::Mod(Box::new(rand_fex(r, n, depth - 1, fb, nonlin)), Box::new(rand_fex(r, n, depth - 1, fb, nonlin))),
    }
}

/// a comparison; most of the time the operator is chosen so that the leaf holds at the witness
fn rand_fleaf(r: &mut Rng, lc: &LCase, fb: u64, nonlin: bool) -> Co {
    let ops = ["eq", "ne", "lt", "le", "gt", "ge"];
    let n = lc.vars.len();
    let shape = r.below(10);
    let (l, rr) = match shape {
        // var-val / val-var / var-var shapes (the `post_var_val` / `post_val_var` arms when nested)
        0 => (Ex::V(r.below(n as u64) as usize), rand_lit(r, fb)),
        1 => (rand_lit(r, fb), Ex::V(r.below(n as u64) as usize)),
        2 => (Ex::V(r.below(n as u64) as usize), Ex::V(r.below(n as u64) as usize)),
        _ => { let d = r.range(0, 2) as usize; (rand_fex(r, n, d, fb, nonlin), rand_fex(r, n, d, fb, nonlin)) }
    };
    let mut op = ops[r.below(6) as usize];
    if let (Some(w), true) = (&lc.wit, r.chance(3, 4)) {
        let c = classify(lc, &l, "le", &rr);
        if c.linear {
            let d: f64 = c.k + c.cs.iter().map(|(x, ci)| ci * w[*x]).sum::<f64>();
            let m = 1e-4 * (1.0 + c.cs.values().map(|x| x.abs()).sum::<f64>());
            op = if d > m { *r.pick(&["gt", "ge", "ne", "gt"]) } else if d < -m { *r.pick(&["lt", "le", "ne", "lt"]) } else if d == 0.0 { *r.pick(&["eq", "le", "ge", "eq"]) } else { op };
        }
    }
    Co::Bin(l, op, rr)
}

fn rand_fco(r: &mut Rng, lc: &LCase, depth: usize, fb: u64, nonlin: bool) -> Co {
    if depth == 0 || r.chance(3, 4) {
        return rand_fleaf(r, lc, fb, nonlin);
    }
    let n = lc.vars.len();
    match r.below(6) {
        0..=2 => Co::And(Box::new(rand_fco(r, lc, depth - 1, fb, nonlin)), Box::new(rand_fco(r, lc, depth - 1, fb, nonlin))),
        3 => {
            // the special `x == a or x == b` shape (integer literals), and its float-literal neighbours
            let x = r.below(n as u64) as usize;
            let lit = |r: &mut Rng| if r.chance(1, 4) { rand_lit(r, 4) } else { Ex::K(r.range(-3, 4) as i32) };
            Co::Or(Box::new(Co::Bin(Ex::V(x), "eq", lit(r))), Box::new(Co::Bin(Ex::V(x), "eq", lit(r))))
        }
        4 => Co::Or(Box::new(rand_fco(r, lc, depth - 1, fb, nonlin)), Box::new(rand_fco(r, lc, depth - 1, fb, nonlin))),
        _ => Co::Not(Box::new(rand_fco(r, lc, depth - 1, fb, nonlin))),
    }
}

fn emit_case(out: &mut Out, lc: &LCase) {
    for v in &lc.vars {
        match v {
            VarSpec::I(d) => { out.emit(format!("lw.var {}", d.iter().map(|x| x.to_string()).collect::<Vec<_>>().join(" ")), "ok"); }
            VarSpec::F(lo, hi) => { out.emit(format!("lw.fvar {} {}", lo.to_bits(), hi.to_bits()), "ok"); }
        }
    }
    if let Some(w) = &lc.wit {
        out.emit(format!("lw.wit {}", w.iter().map(|x| x.to_bits().to_string()).collect::<Vec<_>>().join(" ")), "ok");
    }
    for c in &lc.cons {
        out.emit(format!("lw.post {}", c.tokens()), "ok");
        out.stat(&format!("post.{}", c.tokens().split_whitespace().next().unwrap()));
    }
}

/// simulation of `try_extract_linear_form` on the KINDS of the coefficients (true = Float) of a tree
/// folded by `fold_real`; records which arm of `add_coefficients` / `subtract_coefficients` /
/// `negate_coefficient` every merge executes (`merge` = repeated variable, `const` = the constants)
fn kind_arms(e: &Ex, out: &mut Out) -> Option<(Vec<(usize, bool)>, bool)> {
    let kk = |a: bool, b: bool| format!("{}{}", if a { "Float" } else { "Int" }, if b { "Float" } else { "Int" });
    match e {
        Ex::V(i) => Some((vec![(*i, false)], false)),
        Ex::K(_) => Some((vec![], false)),
        Ex::F(_) => Some((vec![], true)),
        Ex::Mul(a, b) => match (&**a, &**b) {
            (Ex::V(i), Ex::K(_)) | (Ex::K(_), Ex::V(i)) => Some((vec![(*i, false)], false)),
            (Ex::V(i), Ex::F(_)) | (Ex::F(_), Ex::V(i)) => Some((vec![(*i, true)], false)),
            _ => None,
        },
        Ex::Add(a, b) | Ex::Sub(a, b) => {
            let sub = matches!(e, Ex::Sub(..));
            let f = if sub { "subtract_coefficients" } else { "add_coefficients" };
            let (mut lv, lk) = kind_arms(a, out)?;
            let (rv, rk) = kind_arms(b, out)?;
            for (x, isf) in rv {
                if let Some(p) = lv.iter().position(|v| v.0 == x) {
                    out.stat(&format!("arm.{f}.merge.{}", kk(lv[p].1, isf)));
                    lv[p].1 = lv[p].1 || isf;
                } else {
                    if sub { out.stat(&format!("arm.negate_coefficient.{}", if isf { "Float" } else { "Int" })); }
                    lv.push((x, isf));
                }
            }
            out.stat(&format!("arm.{f}.const.{}", kk(lk, rk)));
            Some((lv, lk || rk))
        }
        _ => None,
    }
}

/// the same for `try_convert_to_linear_ast` (left − right)
fn cross_arms(l: &Ex, r: &Ex, out: &mut Out) {
    let kk = |a: bool, b: bool| format!("{}{}", if a { "Float" } else { "Int" }, if b { "Float" } else { "Int" });
    if let (Some((lv, lk)), Some((rv, rk))) = (kind_arms(l, out), kind_arms(r, out)) {
        for (x, isf) in &rv {
            if let Some(p) = lv.iter().position(|v| v.0 == *x) {
                out.stat(&format!("arm.cross.subtract_coefficients.merge.{}", kk(lv[p].1, *isf)));
            } else {
                out.stat(&format!("arm.cross.negate_coefficient.{}", if *isf { "Float" } else { "Int" }));
            }
        }
        out.stat(&format!("arm.cross.subtract_coefficients.const.{}", kk(lk, rk)));
        out.stat(&format!("arm.cross.negate_coefficient.const.{}", if lk || rk { "Float" } else { "Int" }));
    }
}

/// distribution of a float case: variable kinds, literal kinds by position, predicted lowering
fn float_stats(out: &mut Out, lc: &LCase) {
    for v in &lc.vars {
        out.stat(match v { VarSpec::I(_) => "fvar.int", VarSpec::F(lo, hi) => if lo == hi { "fvar.float-singleton" } else { "fvar.float" } });
    }
    fn lits(e: &Ex, pos: &str, out: &mut Out) {
        match e {
            Ex::K(_) => out.stat(&format!("lit.int.{pos}")),
            Ex::F(_) => out.stat(&format!("lit.float.{pos}")),
            Ex::V(_) => {}
            Ex::Mul(a, b) => { lits(a, "mul-left", out); lits(b, "mul-right", out); }
            Ex::Div(a, b) => { lits(a, "div-left", out); lits(b, "div-right", out); }
            Ex::Add(a, b) | Ex::Sub(a, b) | Ex::Mod(a, b) => { lits(a, "term", out); lits(b, "term", out); }
        }
    }
    for c in &lc.cons {
        let top = matches!(c, Co::Bin(..));
        let mut leaves: Vec<(Ex, &'static str, Ex)> = vec![];
        fn collect(c: &Co, acc: &mut Vec<(Ex, &'static str, Ex)>) {
            match c { Co::Bin(l, op, r) => acc.push((l.clone(), op, r.clone())), Co::And(a, b) | Co::Or(a, b) => { collect(a, acc); collect(b, acc); } Co::Not(a) => collect(a, acc) }
        }
        collect(c, &mut leaves);
        for (l, op, r) in &leaves {
            lits(l, "lhs", out);
            lits(r, "rhs", out);
            let k = classify(lc, l, op, r);
            let kinds = if k.has_float_var && !k.all_int_vars { "floatvars" } else if k.has_float_var { "mixedvars" } else { "intvars" };
            if top && k.linear && !k.immediate {
                cross_arms(&l.fold_real(), &r.fold_real(), out);
            }
            if top {
                out.stat(&format!("row.{}.{}.{op}", if k.immediate { "immediate" } else if !k.linear { "nonlinear" } else if k.int_lowered { "int-lowered" } else { "float-lowered" }, kinds));
            } else {
                out.stat(&format!("nested-leaf.{}.{op}", kinds));
            }
        }
    }
}

fn float_case(r: &mut Rng, nonlin: bool) -> LCase {
    let n = r.range(1, 3) as usize;
    let mut vars = vec![];
    let mut wit = vec![];
    // how float-heavy the case is: 0 = integer literals only (the recorded int-lowering findings),
    // 4 = float literals only
    let fb = *r.pick(&[0u64, 1, 2, 2, 3, 4]);
    for i in 0..n {
        let want_float = r.chance(3, 5) || (i == n - 1 && fb == 0 && !vars.iter().any(|v| matches!(v, VarSpec::F(..))));
        if want_float {
            let a = r.range(-16, 24);
            let b = if r.chance(1, 8) { a } else { r.range(a, 24) };
            let w = r.range(a, b);
            vars.push(VarSpec::F(a as f64 * 0.25, b as f64 * 0.25));
            wit.push(w as f64 * 0.25);
        } else {
            let d = crate::core::rand_dom(r, -3, 4);
            wit.push(*r.pick(&d) as f64);
            vars.push(VarSpec::I(d));
        }
    }
    let mut lc = LCase { vars, cons: vec![], wit: Some(wit) };
    let k = r.range(1, 2);
    for _ in 0..k {
        let c = rand_fco(r, &lc, 2, fb, nonlin);
        lc.cons.push(c);
    }
    lc
}

/// malformed stream: ill-formed protocol lines (both sides must answer `bad-op` and stay in step),
/// reversed float bounds (`InvalidDomain`), a literal division by zero (not followed by the model:
/// `unsupported`)
fn malformed_case(out: &mut Out, r: &mut Rng, id: &str) {
    out.case(id);
    out.stat("malformed.cases");
    replay_reset();
    let one = 1.0f64.to_bits();
    let mut lines: Vec<String> = vec![
        format!("lw.fvar {one}"),
        "lw.fvar a b".to_string(),
        format!("lw.fvar {} {}", (r.range(-8, 8) as f64 * 0.5).to_bits(), (r.range(8, 16) as f64 * 0.5).to_bits()),
        "lw.wit abc".to_string(),
        format!("lw.post cmp eq f abc v 0"),
        format!("lw.post cmp lt f {one} v 0 extra"),
        format!("lw.post cmp xx v 0 f {one}"),
        "lw.frob".to_string(),
    ];
    match r.below(3) {
        0 => { lines.push(format!("lw.fvar {} {}", 2.0f64.to_bits(), one)); lines.push("lw.post cmp le v 1 k 3".to_string()); }
        1 => lines.push(format!("lw.post cmp le v 0 / f {one} k 0")),
        _ => lines.push(format!("lw.post cmp {} v 0 f {}", ["eq", "ne", "lt", "le", "gt", "ge"][r.below(6) as usize], (r.range(-8, 8) as f64 * 0.25).to_bits())),
    }
    lines.push("lw.lower".to_string());
    lines.push("lw.prune".to_string());
    for l in &lines {
        replay_line(out, l);
    }
    replay_reset();
}

pub fn suite(out: &mut Out, seed: u64, count: u64, args: &[String]) {
    let nonlin = args.iter().any(|a| a == "--nonlinear");
    if args.iter().any(|a| a == "--float") {
        let mut r0 = Rng::new(seed ^ 0xC10F);
        for i in 0..count {
            let mut r = r0.fork();
            if i % 200 == 199 {
                malformed_case(out, &mut r, &format!("lwm{i}"));
                continue;
            }
            out.case(&format!("lwf{i}"));
            let nl = nonlin || r.chance(1, 6);
            let lc = float_case(&mut r, nl);
            if out.samples.len() < 3 { out.samples.push(lc.cons.iter().map(|c| c.tokens()).collect::<Vec<_>>().join(" ; ")); }
            emit_case(out, &lc);
            float_stats(out, &lc);
            do_lower(&lc, out);
            do_prune(&lc, out);
            if lc.floaty() { do_solve(&lc, out); }
            else if lc.cons.iter().any(|c| c.has_divmod()) { out.stat("float-case.integer-only.divmod-not-enumerated"); }
            else { out.stat("float-case.integer-only"); do_enum(&lc, out); }
        }
        return;
    }
    let mut r0 = Rng::new(seed ^ 0xC10);
    for i in 0..count {
        let mut r = r0.fork();
        out.case(&format!("lw{i}"));
        let n = r.range(1, 3) as usize;
        let doms: Vec<Vec<i32>> = (0..n).map(|_| crate::core::rand_dom(&mut r, -3, 4)).collect();
        let k = r.range(1, 2);
        let cons: Vec<Co> = (0..k).map(|_| rand_co(&mut r, n, 2, nonlin)).collect();
        let lc = LCase { vars: doms.into_iter().map(VarSpec::I).collect(), cons, wit: None };
        if out.samples.len() < 3 { out.samples.push(lc.cons.iter().map(|c| c.tokens()).collect::<Vec<_>>().join(" ; ")); }
        emit_case(out, &lc);
        do_lower(&lc, out);
        do_enum(&lc, out);
    }
}

fn parse_ex(w: &[&str], i: &mut usize) -> Option<Ex> {
    let t = *w.get(*i)?;
    *i += 1;
    Some(match t {
        "v" => { let k = w.get(*i)?.parse().ok()?; *i += 1; Ex::V(k) }
        "k" => { let k = w.get(*i)?.parse().ok()?; *i += 1; Ex::K(k) }
        "f" => { let k: u64 = w.get(*i)?.parse().ok()?; *i += 1; Ex::F(f64::from_bits(k)) }
        "+" | "-" | "*" | "/" | "%" => {
            let a = Box::new(parse_ex(w, i)?);
            let b = Box::new(parse_ex(w, i)?);
            match t { "+" => Ex::Add(a, b), "-" => Ex::Sub(a, b), "*" => Ex::Mul(a, b), "/" => Ex::Div(a, b), _ => Ex::Mod(a, b) }
        }
        _ => return None,
    })
}

fn parse_co(w: &[&str], i: &mut usize) -> Option<Co> {
    let t = *w.get(*i)?;
    *i += 1;
    Some(match t {
        "cmp" => {
            let op = match *w.get(*i)? { "eq" => "eq", "ne" => "ne", "lt" => "lt", "le" => "le", "gt" => "gt", "ge" => "ge", _ => return None };
            *i += 1;
            let l = parse_ex(w, i)?;
            let r = parse_ex(w, i)?;
            Co::Bin(l, op, r)
        }
        "and" => { let a = Box::new(parse_co(w, i)?); let b = Box::new(parse_co(w, i)?); Co::And(a, b) }
        "or" => { let a = Box::new(parse_co(w, i)?); let b = Box::new(parse_co(w, i)?); Co::Or(a, b) }
        "not" => Co::Not(Box::new(parse_co(w, i)?)),
        _ => return None,
    })
}

thread_local! {
    static REPLAY_CASE: std::cell::RefCell<LCase> = std::cell::RefCell::new(LCase::empty());
}

/// a `case` line starts a fresh lowering case in replay mode
pub fn replay_reset() {
    REPLAY_CASE.with(|c| *c.borrow_mut() = LCase::empty());
}

/// replay of one protocol line of this suite inside the current case
pub fn replay_line(out: &mut Out, line: &str) {
    let w: Vec<&str> = line.split_whitespace().collect();
    match w.first().copied() {
        Some("lw.var") => {
            let d: Option<Vec<i32>> = w[1..].iter().map(|x| x.parse().ok()).collect();
            match d {
                Some(d) => { REPLAY_CASE.with(|c| c.borrow_mut().vars.push(VarSpec::I(d))); out.emit(line, "ok"); }
                None => { out.emit(line, "bad-op"); }
            }
        }
        Some("lw.fvar") => {
            let d: Option<Vec<u64>> = w[1..].iter().map(|x| x.parse().ok()).collect();
            match d {
                Some(d) if d.len() == 2 => { REPLAY_CASE.with(|c| c.borrow_mut().vars.push(VarSpec::F(f64::from_bits(d[0]), f64::from_bits(d[1])))); out.emit(line, "ok"); }
                _ => { out.emit(line, "bad-op"); }
            }
        }
        Some("lw.wit") => {
            let d: Option<Vec<u64>> = w[1..].iter().map(|x| x.parse().ok()).collect();
            match d {
                Some(d) => { REPLAY_CASE.with(|c| c.borrow_mut().wit = Some(d.iter().map(|b| f64::from_bits(*b)).collect())); out.emit(line, "ok"); }
                None => { out.emit(line, "bad-op"); }
            }
        }
        Some("lw.post") => {
            let mut i = 1;
            match parse_co(&w, &mut i) {
                Some(c) if i == w.len() => { REPLAY_CASE.with(|x| x.borrow_mut().cons.push(c)); out.emit(line, "ok"); }
                _ => { out.emit(line, "bad-op"); }
            }
        }
        Some("lw.lower") => { let lc = REPLAY_CASE.with(|c| c.borrow().clone()); do_lower(&lc, out); }
        Some("lw.enum") => { let lc = REPLAY_CASE.with(|c| c.borrow().clone()); do_enum(&lc, out); }
        Some("lw.prune") => { let lc = REPLAY_CASE.with(|c| c.borrow().clone()); do_prune(&lc, out); }
        Some("lw.solve") => { let lc = REPLAY_CASE.with(|c| c.borrow().clone()); do_solve(&lc, out); }
        _ => { out.emit(line, "bad-op"); }
    }
}

//! `lp.*` ops (C09): the embedded LP solver `selen::lpsolver` driven through `solve_with_config`
//! and `solve_warmstart`.
//!
//! Per LP the harness prints the data (every f64 as its bit pattern), the reported status, point,
//! objective and basis.  The compiled Lean model re-derives the terminal state from the basis in
//! exact rationals and judges it with the verified checker; the harness prints what it obtains
//! from its OWN exact re-derivation (i128 rationals, written independently, in the loop structure
//! of the Rust code), so that the two verdict lines must agree.
//!
//! Implementation-side oracle (independent of both): exact vertex enumeration.  `Optimal` must
//! satisfy every row and bound within the configured ABSOLUTE feasibility tolerance; its objective
//! may exceed the optimum only up to the optimum of the LP relaxed by that tolerance, and may fall
//! short of it by at most optimality_tol * (sum of the standard-form variables at an optimal
//! vertex) — the bound of theorem `C09_legal_optimal_tol`; the terminal state must be legal.
//!
//! Random streams (`stream:*` counters): `default` (small well-scaled data, default config),
//! `scaled` (a well-scaled LP under row / column scalings by powers of two and 10, 1000: magnitudes
//! up to ~2^48 apart inside one row / column, default config), `config` (feasibility_tol and
//! optimality_tol drawn independently from {1e-9, 1e-6, 1e-4, 1e-2}, binding rows / objective with
//! coefficients between the two tolerances, upper bounds of 1000), plus 10 % malformed problems.
use crate::out::{b, guarded, Out};
use crate::rng::Rng;
use selen::lpsolver::{self, LpConfig, LpError, LpProblem, LpSolution, LpStatus};
use std::cell::RefCell;
use std::cmp::Ordering;

// ---------------------------------------------------------------------------------------------
// exact arithmetic: small rationals (i128, normalised; overflow panics -> caught by `guarded`)
// ---------------------------------------------------------------------------------------------

fn gcd(a: i128, b: i128) -> i128 {
    let (mut a, mut b) = (a.abs(), b.abs());
    while b != 0 {
        let t = a % b;
        a = b;
        b = t;
    }
    a
}

#[derive(Clone, Copy, PartialEq, Eq, Debug)]
struct Q {
    n: i128,
    d: i128,
}

impl Q {
    fn new(n: i128, d: i128) -> Q {
        assert!(d != 0);
        let g = gcd(n, d);
        let (mut n, mut d) = if g == 0 { (0, 1) } else { (n / g, d / g) };
        if d < 0 {
            n = -n;
            d = -d;
        }
        Q { n, d }
    }
    fn int(i: i128) -> Q {
        Q { n: i, d: 1 }
    }
    fn zero() -> Q {
        Q::int(0)
    }
    fn add(self, o: Q) -> Q {
        // over the least common denominator, so that large common powers of two do not pile up
        let g = gcd(self.d, o.d);
        let (da, db) = (self.d / g, o.d / g);
        Q::new(self.n * db + o.n * da, self.d * db)
    }
    fn sub(self, o: Q) -> Q {
        self.add(o.neg())
    }
    fn mul(self, o: Q) -> Q {
        let g1 = gcd(self.n, o.d).max(1);
        let g2 = gcd(o.n, self.d).max(1);
        Q::new((self.n / g1) * (o.n / g2), (self.d / g2) * (o.d / g1))
    }
    fn div(self, o: Q) -> Q {
        assert!(o.n != 0);
        self.mul(if o.n < 0 { Q { n: -o.d, d: -o.n } } else { Q { n: o.d, d: o.n } })
    }
    fn neg(self) -> Q {
        Q { n: -self.n, d: self.d }
    }
    fn abs(self) -> Q {
        Q { n: self.n.abs(), d: self.d }
    }
    fn is_zero(self) -> bool {
        self.n == 0
    }
    fn cmp(self, o: Q) -> Ordering {
        let g = gcd(self.d, o.d);
        (self.n * (o.d / g)).cmp(&(o.n * (self.d / g)))
    }
    fn le(self, o: Q) -> bool {
        self.cmp(o) != Ordering::Greater
    }
    fn lt(self, o: Q) -> bool {
        self.cmp(o) == Ordering::Less
    }
    fn to_f64(self) -> f64 {
        self.n as f64 / self.d as f64
    }
}

/// exact value of a finite f64 as (mantissa, exponent): v = m * 2^e
fn decompose(v: f64) -> Option<(i128, i32)> {
    if !v.is_finite() {
        return None;
    }
    let bits = v.to_bits();
    let sign = if bits >> 63 == 1 { -1i128 } else { 1 };
    let e = ((bits >> 52) & 0x7ff) as i32;
    let frac = (bits & ((1u64 << 52) - 1)) as i128;
    let (m, ex) = if e == 0 { (frac, -1074) } else { (frac + (1i128 << 52), e - 1075) };
    Some((sign * m, ex))
}

/// exact conversion when the value is a small dyadic rational
fn f64_to_q(v: f64) -> Option<Q> {
    let (mut m, mut e) = decompose(v)?;
    if m == 0 {
        return Some(Q::zero());
    }
    while m % 2 == 0 && e < 0 {
        m /= 2;
        e += 1;
    }
    if e >= 0 {
        if e > 60 {
            return None;
        }
        Some(Q::int(m.checked_mul(1i128 << e)?))
    } else {
        if -e > 60 {
            return None;
        }
        Some(Q::new(m, 1i128 << (-e)))
    }
}

// ---------------------------------------------------------------------------------------------
// exact arithmetic: unbounded rationals without normalisation, for the comparisons that involve
// the returned floats and the tolerances (a handful of operations per LP)
// ---------------------------------------------------------------------------------------------

type Mag = Vec<u32>; // little endian, no trailing zero limbs

fn mag_trim(mut a: Mag) -> Mag {
    while a.last() == Some(&0) {
        a.pop();
    }
    a
}

fn mag_from_u128(mut v: u128) -> Mag {
    let mut r = vec![];
    while v > 0 {
        r.push((v & 0xffff_ffff) as u32);
        v >>= 32;
    }
    r
}

fn mag_cmp(a: &Mag, b: &Mag) -> Ordering {
    if a.len() != b.len() {
        return a.len().cmp(&b.len());
    }
    for i in (0..a.len()).rev() {
        if a[i] != b[i] {
            return a[i].cmp(&b[i]);
        }
    }
    Ordering::Equal
}

fn mag_add(a: &Mag, b: &Mag) -> Mag {
    let mut r = Vec::with_capacity(a.len().max(b.len()) + 1);
    let mut carry = 0u64;
    for i in 0..a.len().max(b.len()) {
        let s = carry + *a.get(i).unwrap_or(&0) as u64 + *b.get(i).unwrap_or(&0) as u64;
        r.push((s & 0xffff_ffff) as u32);
        carry = s >> 32;
    }
    if carry > 0 {
        r.push(carry as u32);
    }
    r
}

/// a - b for a >= b
fn mag_sub(a: &Mag, b: &Mag) -> Mag {
    let mut r = Vec::with_capacity(a.len());
    let mut borrow = 0i64;
    for i in 0..a.len() {
        let mut d = a[i] as i64 - borrow - *b.get(i).unwrap_or(&0) as i64;
        if d < 0 {
            d += 1 << 32;
            borrow = 1;
        } else {
            borrow = 0;
        }
        r.push(d as u32);
    }
    mag_trim(r)
}

fn mag_mul(a: &Mag, b: &Mag) -> Mag {
    if a.is_empty() || b.is_empty() {
        return vec![];
    }
    let mut r = vec![0u32; a.len() + b.len()];
    for i in 0..a.len() {
        let mut carry = 0u64;
        for j in 0..b.len() {
            let t = r[i + j] as u64 + a[i] as u64 * b[j] as u64 + carry;
            r[i + j] = (t & 0xffff_ffff) as u32;
            carry = t >> 32;
        }
        let mut k = i + b.len();
        while carry > 0 {
            let t = r[k] as u64 + carry;
            r[k] = (t & 0xffff_ffff) as u32;
            carry = t >> 32;
            k += 1;
        }
    }
    mag_trim(r)
}

fn mag_pow2(e: u32) -> Mag {
    let mut r = vec![0u32; (e / 32) as usize];
    r.push(1u32 << (e % 32));
    r
}

/// value = (neg ? -1 : 1) * num / den, den > 0
#[derive(Clone, Debug)]
struct BR {
    neg: bool,
    num: Mag,
    den: Mag,
}

impl BR {
    fn from_q(q: Q) -> BR {
        BR { neg: q.n < 0, num: mag_from_u128(q.n.unsigned_abs()), den: mag_from_u128(q.d as u128) }
    }
    fn from_f64(v: f64) -> Option<BR> {
        let (m, e) = decompose(v)?;
        let mag = mag_from_u128(m.unsigned_abs());
        Some(if e >= 0 {
            BR { neg: m < 0, num: mag_mul(&mag, &mag_pow2(e as u32)), den: vec![1] }
        } else {
            BR { neg: m < 0, num: mag, den: mag_pow2((-e) as u32) }
        })
    }
    fn negate(&self) -> BR {
        BR { neg: !self.neg && !self.num.is_empty(), num: self.num.clone(), den: self.den.clone() }
    }
    fn abs(&self) -> BR {
        BR { neg: false, num: self.num.clone(), den: self.den.clone() }
    }
    fn add(&self, o: &BR) -> BR {
        let a = mag_mul(&self.num, &o.den);
        let c = mag_mul(&o.num, &self.den);
        let den = mag_mul(&self.den, &o.den);
        if self.neg == o.neg {
            BR { neg: self.neg, num: mag_add(&a, &c), den }
        } else {
            match mag_cmp(&a, &c) {
                Ordering::Equal => BR { neg: false, num: vec![], den },
                Ordering::Greater => BR { neg: self.neg, num: mag_sub(&a, &c), den },
                Ordering::Less => BR { neg: o.neg, num: mag_sub(&c, &a), den },
            }
        }
    }
    fn sub(&self, o: &BR) -> BR {
        self.add(&o.negate())
    }
    fn mul(&self, o: &BR) -> BR {
        let num = mag_mul(&self.num, &o.num);
        BR { neg: (self.neg != o.neg) && !num.is_empty(), num, den: mag_mul(&self.den, &o.den) }
    }
    fn cmp(&self, o: &BR) -> Ordering {
        let sa = if self.num.is_empty() { 0 } else if self.neg { -1 } else { 1 };
        let sb = if o.num.is_empty() { 0 } else if o.neg { -1 } else { 1 };
        if sa != sb {
            return sa.cmp(&sb);
        }
        let a = mag_mul(&self.num, &o.den);
        let c = mag_mul(&o.num, &self.den);
        let m = mag_cmp(&a, &c);
        if sa < 0 { m.reverse() } else { m }
    }
    fn le(&self, o: &BR) -> bool {
        self.cmp(o) != Ordering::Greater
    }
    fn lt(&self, o: &BR) -> bool {
        self.cmp(o) == Ordering::Less
    }
}

// ---------------------------------------------------------------------------------------------
// problems
// ---------------------------------------------------------------------------------------------

/// what is handed to the solver, as floats (dimension fields may disagree with the vectors in
/// the malformed stream)
#[derive(Clone, Debug)]
pub struct Raw {
    nv: usize,
    nc: usize,
    c: Vec<f64>,
    a: Vec<Vec<f64>>,
    b: Vec<f64>,
    lo: Vec<f64>,
    up: Vec<f64>,
    ftol: f64,
    otol: f64,
}

/// exact view of a validated problem with finite data (`None` upper bound = +inf)
#[derive(Clone, Debug)]
struct Exact {
    n: usize,
    m: usize,
    c: Vec<Q>,
    a: Vec<Vec<Q>>,
    b: Vec<Q>,
    lo: Vec<Q>,
    up: Vec<Option<Q>>,
}

fn bits_list(v: &[f64]) -> String {
    v.iter().map(|x| x.to_bits().to_string()).collect::<Vec<_>>().join(",")
}

impl Raw {
    fn to_problem(&self) -> LpProblem {
        LpProblem::new(self.nv, self.nc, self.c.clone(), self.a.clone(), self.b.clone(), self.lo.clone(), self.up.clone())
    }
    fn config(&self) -> LpConfig {
        let mut cfg = LpConfig::default();
        cfg.feasibility_tol = self.ftol;
        cfg.optimality_tol = self.otol;
        cfg
    }
    fn line(&self, first: bool) -> String {
        let rows: String = self.a.iter().map(|r| bits_list(r) + ";").collect();
        format!(
            "lp.prob {} nv={} nc={} c={} a={} b={} lo={} up={} ftol={} otol={}",
            if first { "first" } else { "next" },
            self.nv,
            self.nc,
            bits_list(&self.c),
            rows,
            bits_list(&self.b),
            bits_list(&self.lo),
            bits_list(&self.up),
            self.ftol.to_bits(),
            self.otol.to_bits()
        )
    }
    /// exact view; `None` when some lower bound is not finite, some upper bound is NaN / -inf, or a
    /// value is not a small dyadic rational
    fn exact(&self) -> Option<Exact> {
        let qs = |v: &[f64]| v.iter().map(|x| f64_to_q(*x)).collect::<Option<Vec<Q>>>();
        let up = self
            .up
            .iter()
            .map(|u| if *u == f64::INFINITY { Some(None) } else { f64_to_q(*u).map(Some) })
            .collect::<Option<Vec<Option<Q>>>>()?;
        Some(Exact {
            n: self.nv,
            m: self.nc,
            c: qs(&self.c)?,
            a: self.a.iter().map(|r| qs(r)).collect::<Option<Vec<_>>>()?,
            b: qs(&self.b)?,
            lo: qs(&self.lo)?,
            up,
        })
    }
}

fn err_name(e: &LpError) -> String {
    let s = format!("{e:?}");
    s.split(|c: char| c == ' ' || c == '{' || c == '(').next().unwrap_or("").to_string()
}

fn validate_string(p: &LpProblem) -> String {
    match p.validate() {
        Ok(()) => "ok".to_string(),
        Err(LpError::ConstraintRowDimensionMismatch { row, .. }) => format!("ConstraintRowDimensionMismatch:{row}"),
        Err(LpError::InvalidVariableBounds { variable, .. }) => format!("InvalidVariableBounds:{variable}"),
        Err(e) => err_name(&e),
    }
}

// ---------------------------------------------------------------------------------------------
// the harness's own exact re-derivation of a terminal state
// ---------------------------------------------------------------------------------------------

struct StdForm {
    rows: usize,
    cols: usize,
    a: Vec<Vec<Q>>,
    b: Vec<Q>,
    c: Vec<Q>,
}

/// `PrimalSimplex::to_standard_form`, same loop structure, exact
fn primal_form(e: &Exact) -> StdForm {
    let (m, n) = (e.m, e.n);
    let mut b_adj = e.b.clone();
    for i in 0..m {
        for j in 0..n {
            b_adj[i] = b_adj[i].sub(e.a[i][j].mul(e.lo[j]));
        }
    }
    let n_ub = e.up.iter().filter(|u| u.is_some()).count();
    let rows = m + n_ub;
    let cols = n + rows;
    let mut a = vec![vec![Q::zero(); cols]; rows];
    let mut bb = vec![Q::zero(); rows];
    for i in 0..m {
        for j in 0..n {
            a[i][j] = e.a[i][j];
        }
        bb[i] = b_adj[i];
        a[i][n + i] = Q::int(1);
    }
    let mut r = m;
    let mut s = n + m;
    for j in 0..n {
        if let Some(u) = e.up[j] {
            a[r][j] = Q::int(1);
            a[r][s] = Q::int(1);
            bb[r] = u.sub(e.lo[j]);
            r += 1;
            s += 1;
        }
    }
    let mut c = e.c.clone();
    c.extend(vec![Q::zero(); rows]);
    StdForm { rows, cols, a, b: bb, c }
}

/// `DualSimplex::to_standard_form`
fn dual_form(e: &Exact) -> StdForm {
    let (m, n) = (e.m, e.n);
    let cols = n + m;
    let mut a = vec![vec![Q::zero(); cols]; m];
    for i in 0..m {
        for j in 0..n {
            a[i][j] = e.a[i][j];
        }
        a[i][n + i] = Q::int(1);
    }
    let mut c = e.c.clone();
    c.extend(vec![Q::zero(); m]);
    StdForm { rows: m, cols, a, b: e.b.clone(), c }
}

/// solve the square system M v = rhs by Gaussian elimination with back substitution
fn solve_exact(mut mat: Vec<Vec<Q>>, mut rhs: Vec<Q>) -> Option<Vec<Q>> {
    let n = rhs.len();
    for k in 0..n {
        let p = (k..n).find(|&i| !mat[i][k].is_zero())?;
        mat.swap(k, p);
        rhs.swap(k, p);
        for i in (k + 1)..n {
            if mat[i][k].is_zero() {
                continue;
            }
            let f = mat[i][k].div(mat[k][k]);
            for j in k..n {
                let t = mat[k][j].mul(f);
                mat[i][j] = mat[i][j].sub(t);
            }
            let t = rhs[k].mul(f);
            rhs[i] = rhs[i].sub(t);
        }
    }
    let mut x = vec![Q::zero(); n];
    for i in (0..n).rev() {
        let mut s = rhs[i];
        for j in (i + 1)..n {
            s = s.sub(mat[i][j].mul(x[j]));
        }
        x[i] = s.div(mat[i][i]);
    }
    Some(x)
}

/// (verdict, exact full solution)
fn judge(f: &StdForm, ftol: &BR, otol: &BR, basis: &[usize]) -> (String, Option<Vec<Q>>) {
    let m = f.rows;
    let mut seen = vec![false; f.cols];
    if basis.len() != m {
        return ("illegal:shape".into(), None);
    }
    for &j in basis {
        if j >= f.cols || seen[j] {
            return ("illegal:shape".into(), None);
        }
        seen[j] = true;
    }
    // B[i][k] = A[i][basis[k]]
    let bmat: Vec<Vec<Q>> = (0..m).map(|i| basis.iter().map(|&j| f.a[i][j]).collect()).collect();
    let bt: Vec<Vec<Q>> = basis.iter().map(|&j| (0..m).map(|i| f.a[i][j]).collect()).collect();
    let cb: Vec<Q> = basis.iter().map(|&j| f.c[j]).collect();
    let (xb, y) = match (solve_exact(bmat, f.b.clone()), solve_exact(bt, cb)) {
        (Some(x), Some(y)) => (x, y),
        _ => return ("illegal:singular".into(), None),
    };
    let mut z = vec![Q::zero(); f.cols];
    for (k, &j) in basis.iter().enumerate() {
        z[j] = xb[k];
    }
    let minus_ftol = ftol.negate();
    if xb.iter().any(|v| BR::from_q(*v).lt(&minus_ftol)) {
        return ("illegal:primal".into(), Some(z));
    }
    for j in 0..f.cols {
        if seen[j] {
            continue;
        }
        let mut r = f.c[j];
        for i in 0..m {
            r = r.sub(y[i].mul(f.a[i][j]));
        }
        if otol.lt(&BR::from_q(r)) {
            return ("illegal:dual".into(), Some(z));
        }
    }
    ("legal".into(), Some(z))
}

// ---------------------------------------------------------------------------------------------
// oracle: exact vertex enumeration
// ---------------------------------------------------------------------------------------------

#[derive(Clone, Debug, PartialEq)]
enum Truth {
    Infeasible,
    Unbounded,
    /// optimum, and the smallest sum of standard-form variables (x - l, row slacks, bound slacks)
    /// over the optimal vertices; whether some feasible vertex is degenerate (more than n constraints tight)
    Optimal(Q, Q, bool),
}

/// maximum of c.x over { rows: a.x <= b } given as (a, b) pairs, by enumerating the vertices
/// (the region must be pointed); `None` when empty
fn vertex_max(n: usize, cons: &[(Vec<Q>, Q)], c: &[Q], degenerate: &mut bool) -> Option<(Q, Q)> {
    let k = cons.len();
    // (objective, sum of all constraint slacks = sum of the standard-form variables) of the best vertex
    let mut best: Option<(Q, Q)> = None;
    if n == 0 {
        return if cons.iter().all(|(_, b)| Q::zero().le(*b)) { Some((Q::zero(), Q::zero())) } else { None };
    }
    let mut idx: Vec<usize> = (0..n).collect();
    if k < n {
        return None;
    }
    loop {
        let mat: Vec<Vec<Q>> = idx.iter().map(|&i| cons[i].0.clone()).collect();
        let rhs: Vec<Q> = idx.iter().map(|&i| cons[i].1).collect();
        if let Some(x) = solve_exact(mat, rhs) {
            let mut slack_sum = Q::zero();
            let mut tight = 0usize;
            let feas = cons.iter().all(|(a, b)| {
                let mut s = Q::zero();
                for j in 0..n {
                    s = s.add(a[j].mul(x[j]));
                }
                slack_sum = slack_sum.add(b.sub(s));
                if s == *b {
                    tight += 1;
                }
                s.le(*b)
            });
            if feas && tight > n {
                *degenerate = true;
            }
            if feas {
                let mut o = Q::zero();
                for j in 0..n {
                    o = o.add(c[j].mul(x[j]));
                }
                best = match best {
                    None => Some((o, slack_sum)),
                    Some((bo, bs)) => match bo.cmp(o) {
                        Ordering::Less => Some((o, slack_sum)),
                        Ordering::Equal => Some((bo, if slack_sum.lt(bs) { slack_sum } else { bs })),
                        Ordering::Greater => Some((bo, bs)),
                    },
                };
            }
        }
        // next combination
        let mut i = n;
        loop {
            if i == 0 {
                return best;
            }
            i -= 1;
            if idx[i] != i + k - n {
                break;
            }
        }
        idx[i] += 1;
        for j in (i + 1)..n {
            idx[j] = idx[j - 1] + 1;
        }
    }
}

fn unit_row(n: usize, j: usize, v: i128) -> Vec<Q> {
    let mut r = vec![Q::zero(); n];
    r[j] = Q::int(v);
    r
}

/// a dyadic number with a 4-bit mantissa, >= v and < 1.14 v (v > 0 finite)
fn dyadic_ceil(v: f64) -> Q {
    let (m, e) = decompose(v).unwrap();
    let bits = 128 - m.leading_zeros() as i32;
    let shift = (bits - 4).max(0);
    let top = (m >> shift) + 1;
    let ex = e + shift;
    if ex >= 0 { Q::int(top << ex) } else { Q::new(top, 1i128 << (-ex)) }
}

/// `relax` is added to every right-hand side and bound (0 = the LP itself)
fn truth_relaxed(e: &Exact, relax: Q) -> Truth {
    let n = e.n;
    let mut cons: Vec<(Vec<Q>, Q)> = vec![];
    for i in 0..e.m {
        cons.push((e.a[i].clone(), e.b[i].add(relax)));
    }
    for j in 0..n {
        cons.push((unit_row(n, j, -1), e.lo[j].neg().add(relax)));
        if let Some(u) = e.up[j] {
            cons.push((unit_row(n, j, 1), u.add(relax)));
        }
    }
    let mut degenerate = false;
    let best = match vertex_max(n, &cons, &e.c, &mut degenerate) {
        None => return Truth::Infeasible,
        Some(v) => v,
    };
    // recession cone, cut by the box 0 <= d_j <= 1 (d_j = 0 where u_j is finite)
    let mut ray: Vec<(Vec<Q>, Q)> = vec![];
    for i in 0..e.m {
        ray.push((e.a[i].clone(), Q::zero()));
    }
    for j in 0..n {
        ray.push((unit_row(n, j, -1), Q::zero()));
        ray.push((unit_row(n, j, 1), if e.up[j].is_some() { Q::zero() } else { Q::int(1) }));
    }
    let mut unused = false;
    match vertex_max(n, &ray, &e.c, &mut unused) {
        Some((v, _)) if Q::zero().lt(v) => Truth::Unbounded,
        _ => Truth::Optimal(best.0, best.1, degenerate),
    }
}

fn truth(e: &Exact) -> Truth {
    truth_relaxed(e, Q::zero())
}

// ---------------------------------------------------------------------------------------------
// running one LP
// ---------------------------------------------------------------------------------------------

#[derive(Clone, Debug)]
enum Outcome {
    Ok(LpSolution),
    Err(String),
    Panic,
}

#[derive(Default)]
pub struct State {
    raw: Option<Raw>,
    exact: Option<Exact>,
    valid: bool,
    guard: bool,
    dual_guard: bool,
    truth: Option<Truth>,
    /// the same LP with every row and bound relaxed by (a dyadic number just above) the feasibility
    /// tolerance: the exact upper bound for the objective of any point that is feasible within it
    relaxed: Option<Truth>,
    /// cold solution of the current problem / of the previous problem of the case
    cold: Option<Outcome>,
    prev: Option<LpSolution>,
    /// the harness's own verdict on those two terminal states
    cold_legal: bool,
    prev_legal: bool,
    /// basis sequence of the last cold solve (hook H10) and how the solve ended
    trace: Option<(Vec<selen::verif_hooks::LpTraceEvent>, String)>,
}

thread_local! {
    static REPLAY: RefCell<State> = RefCell::new(State::default());
}

fn status_name(s: LpStatus) -> &'static str {
    match s {
        LpStatus::Optimal => "Optimal",
        LpStatus::Infeasible => "Infeasible",
        LpStatus::Unbounded => "Unbounded",
        LpStatus::IterationLimit => "IterationLimit",
        LpStatus::NumericalError => "NumericalError",
    }
}

fn sum_abs(c: &[Q]) -> Q {
    c.iter().fold(Q::zero(), |s, v| s.add(v.abs()))
}

pub fn do_prob(out: &mut Out, st: &mut State, raw: Raw, first: bool) {
    if first {
        *st = State::default();
    } else {
        st.prev = match st.cold.take() {
            Some(Outcome::Ok(s)) => Some(s),
            _ => None,
        };
        st.prev_legal = st.cold_legal;
    }
    let p = raw.to_problem();
    let v = validate_string(&p);
    st.valid = v == "ok";
    st.exact = if st.valid { raw.exact() } else { None };
    st.truth = None;
    st.relaxed = None;
    st.cold = None;
    st.cold_legal = false;
    let res = match (&st.exact, BR::from_f64(raw.ftol)) {
        (Some(e), Some(ftol)) => {
            let r = guarded(|| {
                let f = primal_form(e);
                let neg = ftol.negate();
                let guard = f.b.iter().all(|v| neg.le(&BR::from_q(*v)));
                let dg = e.lo.iter().all(|l| l.is_zero()) && e.up.iter().all(|u| u.is_none());
                (f.rows, f.cols, guard, dg, truth(e), truth_relaxed(e, dyadic_ceil(raw.ftol)))
            });
            match r {
                Some((rows, cols, guard, dg, t, tr)) => {
                    st.relaxed = Some(tr);
                    st.guard = guard;
                    st.dual_guard = dg;
                    st.truth = Some(t);
                    format!("validate=ok std={rows}x{cols} guard={} dual={}", b(guard), b(dg))
                }
                None => "validate=ok exact-overflow".to_string(),
            }
        }
        _ => format!("validate={v} std=- guard=- dual=-"),
    };
    out.stat(&format!("validate:{}", v.split(':').next().unwrap_or("")));
    if st.exact.is_some() {
        out.stat(&format!("n={}", raw.nv));
        out.stat(&format!("m={}", raw.nc));
        out.stat(if st.guard { "phase1:skipped" } else { "phase1:needed" });
        match &st.truth {
            Some(Truth::Infeasible) => out.stat("truth:infeasible"),
            Some(Truth::Unbounded) => out.stat("truth:unbounded"),
            Some(Truth::Optimal(..)) => out.stat("truth:optimal"),
            None => {}
        }
    }
    out.emit(raw.line(first), res);
    st.raw = Some(raw);
}

fn run(path: &str, raw: &Raw, warm: Option<&LpSolution>) -> Outcome {
    let p = raw.to_problem();
    let cfg = raw.config();
    let r = guarded(|| match path {
        "cold" => {
            selen::verif_hooks::lp_trace_start();
            lpsolver::solve_with_config(&p, &cfg)
        }
        _ => lpsolver::solve_warmstart(&p, warm.unwrap(), &cfg),
    });
    match r {
        Some(Ok(s)) => Outcome::Ok(s),
        Some(Err(e)) => Outcome::Err(err_name(&e)),
        None => Outcome::Panic,
    }
}

fn close(a: &BR, e: &BR, tol: &BR) -> bool {
    a.sub(e).abs().le(tol)
}

/// the harness's own exact judgement of a claimed terminal state (what the model must print too)
fn verdict_line(raw: &Raw, exact: Option<&Exact>, cold: bool, status: LpStatus, objective: f64, x: &[f64], basis: &[usize]) -> String {
    let reach = matches!(status, LpStatus::Optimal | LpStatus::Unbounded | LpStatus::IterationLimit);
    if status != LpStatus::Optimal {
        return format!("reach={} n/a", b(reach));
    }
    let e = match exact {
        None => return format!("reach={} unmodelled", b(reach)),
        Some(e) => e,
    };
    guarded(|| {
        let ftol = BR::from_f64(raw.ftol).unwrap();
        let otol = BR::from_f64(raw.otol).unwrap();
        let f = if cold { primal_form(e) } else { dual_form(e) };
        let (verdict, z) = judge(&f, &ftol, &otol, basis);
        let objtol = ftol.mul(&BR::from_q(Q::int(1).add(sum_abs(&e.c))));
        let xs: Option<Vec<BR>> = x.iter().map(|v| BR::from_f64(*v)).collect();
        let o = BR::from_f64(objective);
        let objcx = match (&o, &xs) {
            (Some(o), Some(xs)) if xs.len() == e.n => {
                let mut cx = BR::from_q(Q::zero());
                for j in 0..e.n {
                    cx = cx.add(&BR::from_q(e.c[j]).mul(&xs[j]));
                }
                if close(o, &cx, &objtol) { "ok" } else { "bad" }
            }
            _ => "bad",
        };
        match z {
            None => format!("reach={} {verdict} xdev=- obj=- objcx={objcx}", b(reach)),
            Some(z) => {
                let mut xe = vec![];
                let mut oe = Q::zero();
                for j in 0..f.cols {
                    oe = oe.add(f.c[j].mul(z[j]));
                }
                for j in 0..e.n {
                    xe.push(if cold { z[j].add(e.lo[j]) } else { z[j] });
                    if cold {
                        oe = oe.add(e.c[j].mul(e.lo[j]));
                    }
                }
                let xdev = match &xs {
                    Some(xs) if xs.len() == e.n => (0..e.n).all(|j| close(&xs[j], &BR::from_q(xe[j]), &ftol)),
                    _ => false,
                };
                let objv = match &o {
                    Some(o) => close(o, &BR::from_q(oe), &objtol),
                    None => false,
                };
                format!(
                    "reach={} {verdict} xdev={} obj={} objcx={objcx}",
                    b(reach),
                    if xdev { "ok" } else { "bad" },
                    if objv { "ok" } else { "bad" }
                )
            }
        }
    })
    .unwrap_or_else(|| "exact-overflow".to_string())
}

/// a claimed terminal state that does NOT come from the solver (random basis): exercises every
/// branch of the two checkers against each other; no oracle
pub fn do_synth(out: &mut Out, st: &State, objective: f64, x: &[f64], basis: &[usize]) {
    let raw = match &st.raw {
        Some(r) => r,
        None => return,
    };
    let op = format!(
        "lp.sol synth st=Optimal obj={} x={} basis={}",
        objective.to_bits(),
        bits_list(x),
        basis.iter().map(|i| i.to_string()).collect::<Vec<_>>().join(",")
    );
    let res = verdict_line(raw, st.exact.as_ref(), true, LpStatus::Optimal, objective, x, basis);
    out.stat(&format!("synth:{}", res.split_whitespace().nth(1).unwrap_or("?")));
    out.emit(op, res);
}

/// `path` = cold | warm-self | warm-prev
pub fn do_sol(out: &mut Out, st: &mut State, path: &str) {
    let raw = match &st.raw {
        Some(r) => r.clone(),
        None => return,
    };
    let warm_src: Option<LpSolution> = match path {
        "cold" => None,
        // precondition of the dual simplex: a dual-feasible basis, i.e. the basis of an Optimal answer
        "warm-self" => match &st.cold {
            Some(Outcome::Ok(s)) if s.status == LpStatus::Optimal => Some(s.clone()),
            _ => None,
        },
        _ => st.prev.clone().filter(|s| s.status == LpStatus::Optimal),
    };
    if path != "cold" && warm_src.is_none() {
        return;
    }
    let oc = run(path, &raw, warm_src.as_ref());
    // known-finding matchers (input-side):
    //   lp-phase1      cold solve of an LP whose slack basis is infeasible after the lower-bound shift
    //   lp-warm-form   warm start of an LP with a non-zero lower or a finite upper bound (the dual
    //                  solver's standard form drops the bounds; basis sizes differ)
    //   lp-phase1      warm start from a cold answer whose terminal state was itself illegal
    //   lp-warm-xbasic any other warm start (DualSimplex::solve indexes the variable-indexed result
    //                  of Basis::solve_basic by basis position)
    //   lp-pivot-abs   with smin / smax the smallest / largest magnitude among the non-zero constraint
    //                  coefficients and 1 (the slack and bound-row entries of the standard form):
    //                  smin <= feasibility_tol, or smin * (smin / smax) <= feasibility_tol (one
    //                  elimination step can produce such a pivot).  The ratio test (basis.rs
    //                  find_leaving_variable, `d_i > tolerance`) and the LU singularity test (lu.rs
    //                  decompose, `pivot_value < tolerance`) use the ABSOLUTE feasibility tolerance as
    //                  pivot threshold: rows are skipped / bases declared singular
    //   lp-ratio-degenerate  (only for a primal-infeasible terminal state) some feasible vertex is
    //                  degenerate: after a tie in the ratio test a basic variable can be rounded to
    //                  -1e-16, and find_leaving_variable (`ratio >= 0.0`) then leaves it out
    //   lp-otol-abs    (only for `Optimal` on an unbounded LP) some non-zero objective coefficient is
    //                  <= optimality_tol in magnitude and is treated as zero
    let tiny_coef = match &st.exact {
        Some(e) => guarded(|| {
            let ft = BR::from_f64(raw.ftol).unwrap();
            let mut mags: Vec<Q> = e.a.iter().flatten().filter(|q| !q.is_zero()).map(|q| q.abs()).collect();
            mags.push(Q::int(1));
            match mags.iter().copied().reduce(|a, b| if a.lt(b) { a } else { b }) {
                None => (false, false),
                Some(amin) => {
                    let amax = mags.iter().copied().reduce(|a, b| if a.lt(b) { b } else { a }).unwrap();
                    (BR::from_q(amin).le(&ft), BR::from_q(amin.mul(amin).div(amax)).le(&ft))
                }
            }
        })
        .unwrap_or((false, false)),
        None => (false, false),
    };
    let tiny_obj = match &st.exact {
        Some(e) => {
            let ot = BR::from_f64(raw.otol).unwrap();
            e.c.iter().any(|q| !q.is_zero() && BR::from_q(q.abs()).le(&ot))
        }
        None => false,
    };
    let tag_of = |st: &State, cold: bool| -> &'static str {
        if cold {
            if tiny_coef.0 {
                "lp-pivot-abs"
            } else if !st.guard {
                "lp-phase1"
            } else if tiny_coef.1 {
                "lp-pivot-abs"
            } else {
                "-"
            }
        } else if !st.dual_guard {
            "lp-warm-form"
        } else if !(if path == "warm-self" { st.cold_legal } else { st.prev_legal }) {
            "lp-phase1"
        } else {
            "lp-warm-xbasic"
        }
    };
    let cold = path == "cold";
    let (op, res) = match &oc {
        Outcome::Err(e) => (format!("lp.sol {path} st=Err:{e} obj=0 x= basis="), "err".to_string()),
        Outcome::Panic => (format!("lp.sol {path} st=panic obj=0 x= basis="), "err".to_string()),
        Outcome::Ok(s) => {
            let op = format!(
                "lp.sol {path} st={} obj={} x={} basis={}",
                status_name(s.status),
                s.objective.to_bits(),
                bits_list(&s.x),
                s.basic_indices.iter().map(|i| i.to_string()).collect::<Vec<_>>().join(",")
            );
            let res = verdict_line(&raw, st.exact.as_ref(), cold, s.status, s.objective, &s.x, &s.basic_indices);
            (op, res)
        }
    };
    let line = out.emit(op, res.clone());
    let st_name = match &oc {
        Outcome::Ok(s) => status_name(s.status).to_string(),
        Outcome::Err(e) => format!("Err:{e}"),
        Outcome::Panic => "panic".to_string(),
    };
    out.stat(&format!("{path}:{st_name}"));
    if let Outcome::Ok(s) = &oc {
        if s.status == LpStatus::Optimal {
            let v = res.split_whitespace().nth(1).unwrap_or("?").to_string();
            out.stat(&format!("{path}:verdict:{v}"));
        }
    }

    // ---- implementation-side oracle (C09) ----
    if let (Some(e), Some(t)) = (&st.exact, &st.truth) {
        let tag = tag_of(st, cold);
        let ftol = BR::from_f64(raw.ftol).unwrap();
        let otol = BR::from_f64(raw.otol).unwrap();
        let objtol = ftol.mul(&BR::from_q(Q::int(1).add(sum_abs(&e.c))));
        let fail = |out: &mut Out, what: String| out.fail(line, "C09", tag, format!("{path}: {what}"));
        let degenerate = matches!(t, Truth::Optimal(_, _, true));
        let fail_primal = |out: &mut Out, what: String| {
            out.fail(line, "C09", if cold && tag == "-" && degenerate { "lp-ratio-degenerate" } else { tag }, format!("{path}: {what}"))
        };
        let fail_otol = |out: &mut Out, what: String| {
            out.fail(line, "C09", if cold && tiny_obj { "lp-otol-abs" } else { tag }, format!("{path}: {what}"))
        };
        match &oc {
            Outcome::Ok(s) => match s.status {
                LpStatus::Optimal => {
                    // the terminal state itself (exact re-derivation from the returned basis)
                    if let Some(v) = res.split_whitespace().nth(1) {
                        if v == "illegal:primal" {
                            fail_primal(out, format!("Optimal with a terminal state that is not legal ({v}); basis={:?}", s.basic_indices));
                        } else if v.starts_with("illegal") {
                            fail(out, format!("Optimal with a terminal state that is not legal ({v}); basis={:?}", s.basic_indices));
                        }
                    }
                    let xs: Option<Vec<BR>> = s.x.iter().map(|v| BR::from_f64(*v)).collect();
                    match (xs, BR::from_f64(s.objective)) {
                        (Some(xs), Some(o)) if xs.len() == e.n => {
                            // feasibility within the tolerance
                            let mut viol: Option<String> = None;
                            for i in 0..e.m {
                                let mut ax = BR::from_q(Q::zero());
                                for j in 0..e.n {
                                    ax = ax.add(&BR::from_q(e.a[i][j]).mul(&xs[j]));
                                }
                                if !ax.le(&BR::from_q(e.b[i]).add(&ftol)) && viol.is_none() {
                                    viol = Some(format!("row {i} violated"));
                                }
                            }
                            for j in 0..e.n {
                                if xs[j].lt(&BR::from_q(e.lo[j]).sub(&ftol)) && viol.is_none() {
                                    viol = Some(format!("x{j}={} below lower bound {}", s.x[j], e.lo[j].to_f64()));
                                }
                                if let Some(u) = e.up[j] {
                                    if BR::from_q(u).add(&ftol).lt(&xs[j]) && viol.is_none() {
                                        viol = Some(format!("x{j}={} above upper bound {}", s.x[j], u.to_f64()));
                                    }
                                }
                            }
                            if let Some(v) = viol {
                                let what = match t {
                                    Truth::Infeasible => "the LP is infeasible".to_string(),
                                    Truth::Unbounded => "the LP is unbounded".to_string(),
                                    Truth::Optimal(o, ..) => format!("the LP has optimum {}", o.to_f64()),
                                };
                                fail_primal(out, format!("Optimal with an infeasible point ({v}); x={:?}; {what}", s.x));
                            } else {
                                // a point that is feasible within the tolerance cannot beat the optimum of
                                // the LP relaxed by (slightly more than) the tolerance
                                let upper = match &st.relaxed {
                                    Some(Truth::Optimal(ro, ..)) => Some(BR::from_q(*ro).add(&objtol)),
                                    _ => None,
                                };
                                match t {
                                    Truth::Optimal(opt, zsum, _) => {
                                        // below the optimum by at most otol * (sum of the standard-form variables
                                        // at an optimal vertex): the bound of theorem C09_legal_optimal_tol
                                        let optb = BR::from_q(*opt);
                                        let low = optb.sub(&objtol).sub(&otol.mul(&BR::from_q(*zsum)));
                                        let up_ok = upper.as_ref().map_or(false, |u| o.le(u));
                                        if !(up_ok && low.le(&o)) {
                                            fail(out, format!("Optimal with objective {} but the optimum is {}; x={:?}", s.objective, opt.to_f64(), s.x));
                                        }
                                    }
                                    Truth::Unbounded => fail_otol(out, format!("Optimal (objective {}) on an unbounded LP", s.objective)),
                                    Truth::Infeasible => {
                                        // infeasible, but feasible within the tolerance
                                        out.stat("optimal-within-tol-on-infeasible");
                                        if !upper.as_ref().map_or(false, |u| o.le(u)) {
                                            fail(out, format!("Optimal with objective {} above the optimum of the tolerance-relaxed LP; x={:?}", s.objective, s.x));
                                        }
                                    }
                                }
                            }
                            let mut cx = BR::from_q(Q::zero());
                            for j in 0..e.n {
                                cx = cx.add(&BR::from_q(e.c[j]).mul(&xs[j]));
                            }
                            if !close(&o, &cx, &objtol) {
                                fail(out, format!("reported objective {} is not c.x of the returned point {:?}", s.objective, s.x));
                            }
                        }
                        _ => fail(out, format!("Optimal with a malformed point x={:?} objective={}", s.x, s.objective)),
                    }
                }
                LpStatus::Infeasible => {
                    out.stat("status-infeasible-seen");
                    if *t != Truth::Infeasible {
                        fail(out, "Infeasible reported for a feasible LP".to_string());
                    }
                }
                LpStatus::Unbounded => {
                    if *t != Truth::Unbounded {
                        fail(out, format!("Unbounded reported but the LP is {}", if *t == Truth::Infeasible { "infeasible" } else { "bounded" }));
                    }
                }
                _ => {}
            },
            Outcome::Err(en) => {
                if *t != Truth::Infeasible {
                    fail(out, format!("Err({en}) on a feasible LP"));
                } else {
                    out.stat("err-on-infeasible");
                }
            }
            Outcome::Panic => fail(out, "panic".to_string()),
        }
        // warm vs cold (same problem)
        if !cold {
            if let (Some(Outcome::Ok(cs)), Outcome::Ok(ws)) = (&st.cold, &oc) {
                if cs.status == LpStatus::Optimal && ws.status == LpStatus::Optimal {
                    if let (Some(a), Some(bb)) = (BR::from_f64(cs.objective), BR::from_f64(ws.objective)) {
                        let wtol = match t {
                            Truth::Optimal(_, zsum, _) => objtol.add(&otol.mul(&BR::from_q(*zsum))),
                            _ => objtol.clone(),
                        };
                        if !close(&a, &bb, &wtol) {
                            fail(out, format!("warm objective {} != cold objective {}", ws.objective, cs.objective));
                        }
                    }
                } else if cs.status != ws.status {
                    fail(out, format!("warm status {} != cold status {}", status_name(ws.status), status_name(cs.status)));
                }
            }
        }
    }
    if cold {
        st.cold_legal = res.split_whitespace().nth(1) == Some("legal");
        let events = selen::verif_hooks::lp_trace_take();
        st.trace = match &oc {
            Outcome::Panic => None,
            _ => Some((events, st_name.clone())),
        };
        st.cold = Some(oc);
    }
}

/// the auxiliary problem of `phase_one` as the code builds it (minimisation form: cost 1 on the
/// artificial columns)
fn phase1_form(f: &StdForm) -> StdForm {
    let (m, n) = (f.rows, f.cols);
    let mut a = vec![vec![Q::zero(); n + m]; m];
    let mut bb = f.b.clone();
    for i in 0..m {
        let flip = f.b[i].lt(Q::zero());
        for j in 0..n {
            a[i][j] = if flip { f.a[i][j].neg() } else { f.a[i][j] };
        }
        if flip {
            bb[i] = bb[i].neg();
        }
        a[i][n + i] = Q::int(1);
    }
    let mut c = vec![Q::zero(); n];
    c.extend(vec![Q::int(1); m]);
    StdForm { rows: m, cols: n + m, a, b: bb, c }
}

fn same(v: f64, q: Q) -> bool {
    match BR::from_f64(v) {
        Some(b) => b.cmp(&BR::from_q(q)) == Ordering::Equal,
        None => false,
    }
}

/// were all the floats the solver took its decisions on computed without rounding?  (every
/// recorded basic solution, reduced cost, direction and Phase-I objective equals the exact value
/// derived from the recorded basis)
fn trace_exact(e: &Exact, events: &[selen::verif_hooks::LpTraceEvent]) -> Result<(), &'static str> {
    guarded(|| {
        let f = primal_form(e);
        let f1 = phase1_form(&f);
        for ev in events {
            let g = if ev.phase == 1 || ev.phase == 3 { &f1 } else { &f };
            let m = g.rows;
            if ev.basic.len() != m || ev.basic.iter().chain(ev.nonbasic.iter()).any(|&j| j >= g.cols) {
                return Err("shape");
            }
            let bmat: Vec<Vec<Q>> = (0..m).map(|i| ev.basic.iter().map(|&j| g.a[i][j]).collect()).collect();
            if !ev.x_basic.is_empty() || ev.objective.is_some() {
                let xb = match solve_exact(bmat.clone(), g.b.clone()) {
                    Some(x) => x,
                    None => return Err("singular"),
                };
                if !ev.x_basic.is_empty() && (ev.x_basic.len() != m || (0..m).any(|k| !same(ev.x_basic[k], xb[k]))) {
                    return Err("x");
                }
                if let Some(o) = ev.objective {
                    let mut s = Q::zero();
                    for (k, &j) in ev.basic.iter().enumerate() {
                        s = s.add(g.c[j].mul(xb[k]));
                    }
                    if !same(o, s) {
                        return Err("objective");
                    }
                }
            }
            if !ev.reduced.is_empty() {
                let bt: Vec<Vec<Q>> = ev.basic.iter().map(|&j| (0..m).map(|i| g.a[i][j]).collect()).collect();
                let cb: Vec<Q> = ev.basic.iter().map(|&j| g.c[j]).collect();
                let y = match solve_exact(bt, cb) {
                    Some(y) => y,
                    None => return Err("singular"),
                };
                if ev.reduced.len() != ev.nonbasic.len() {
                    return Err("shape");
                }
                for (k, &j) in ev.nonbasic.iter().enumerate() {
                    let mut r = g.c[j];
                    for i in 0..m {
                        r = r.sub(y[i].mul(g.a[i][j]));
                    }
                    if !same(ev.reduced[k], r) {
                        return Err("reduced");
                    }
                }
            }
            if let Some(en) = ev.entering {
                if en >= g.cols {
                    return Err("shape");
                }
                let col: Vec<Q> = (0..m).map(|i| g.a[i][en]).collect();
                let d = match solve_exact(bmat, col) {
                    Some(d) => d,
                    None => return Err("singular"),
                };
                if ev.direction.len() != m || (0..m).any(|k| !same(ev.direction[k], d[k])) {
                    return Err("direction");
                }
            }
        }
        Ok(())
    })
    .unwrap_or(Err("overflow"))
}

/// `lp.trace`: the basis sequence of the last cold solve against the model's (`Model/Simplex.lean`),
/// on runs in which no float operation feeding a decision rounded
pub fn do_trace(out: &mut Out, st: &mut State) {
    let (events, end) = match st.trace.take() {
        Some(t) => t,
        None => return,
    };
    let (e, raw) = match (&st.exact, &st.raw) {
        (Some(e), Some(r)) => (e, r),
        _ => return,
    };
    if events.is_empty() {
        return;
    }
    let maxit = raw.config().max_iterations;
    let shown: Vec<String> = events
        .iter()
        .filter(|ev| ev.phase != 3)
        .map(|ev| format!("{}:{}", ev.phase, ev.basic.iter().map(|i| i.to_string()).collect::<Vec<_>>().join(",")))
        .collect();
    let res = format!("{} => {}", shown.join(" "), end);
    out.stat(&format!("trace:len={}", shown.len().min(12)));
    if events.iter().any(|ev| ev.phase == 1) {
        out.stat("trace:phase1");
    }
    let verdict = trace_exact(e, &events);
    if verdict.is_ok() {
        out.stat("trace:exact");
        out.emit(format!("lp.trace maxit={maxit}"), res);
    } else {
        // rounding occurred somewhere: the model (exact arithmetic) need not follow the same path
        out.stat("trace:inexact-skipped");
        out.stat(&format!("trace:inexact:{}", verdict.unwrap_err()));
        out.emit(format!("# lp.trace maxit={maxit} (inexact run, not compared)"), res);
    }
}

// ---------------------------------------------------------------------------------------------
// generators
// ---------------------------------------------------------------------------------------------

fn half(rng: &mut Rng, lo: i64, hi: i64, halves: bool) -> Q {
    let v = rng.range(lo * 2, hi * 2);
    if halves { Q::new(v as i128, 2) } else { Q::int((v / 2) as i128) }
}

fn default_tols() -> (f64, f64) {
    let c = LpConfig::default();
    (c.feasibility_tol, c.optimality_tol)
}

struct Shape {
    n: usize,
    m: usize,
}

fn gen_exact(rng: &mut Rng, sh: &Shape, out: &mut Out) -> Exact {
    let (n, m) = (sh.n, sh.m);
    let halves = rng.chance(1, 3);
    let mut lo = vec![];
    let mut up = vec![];
    let style = rng.below(10);
    for _ in 0..n {
        // style 0: l = 0, u = inf everywhere (the dual solver's own form); style 1: l = 0
        let l = if style <= 1 { Q::zero() } else { half(rng, -3, 3, halves) };
        let u = if style == 0 || rng.chance(1, 7) {
            None
        } else {
            let w = match rng.below(8) {
                0 => Q::zero(),
                1 => Q::new(1, 2),
                _ => half(rng, 1, 6, halves),
            };
            Some(l.add(w))
        };
        lo.push(l);
        up.push(u);
    }
    let c: Vec<Q> = (0..n).map(|_| if rng.chance(1, 5) { Q::zero() } else { half(rng, -4, 4, halves) }).collect();
    let mut a: Vec<Vec<Q>> = vec![];
    let mut bv: Vec<Q> = vec![];
    // a witness point inside the box makes most LPs feasible
    let wit: Vec<Q> = (0..n)
        .map(|j| match up[j] {
            Some(u) => {
                let k = rng.below(3) as i128;
                lo[j].add(u.sub(lo[j]).mul(Q::new(k, 2)))
            }
            None => lo[j].add(half(rng, 0, 3, halves)),
        })
        .collect();
    for i in 0..m {
        let kind = rng.below(12);
        if kind == 0 && i > 0 {
            // duplicate / scaled copy of an earlier row (redundant)
            let src = rng.below(i as u64) as usize;
            let k = *rng.pick(&[Q::int(1), Q::int(2), Q::new(1, 2)]);
            a.push(a[src].iter().map(|v| v.mul(k)).collect());
            bv.push(bv[src].mul(k).add(if rng.chance(1, 2) { Q::zero() } else { Q::int(1) }));
            out.stat("row:redundant");
            continue;
        }
        let row: Vec<Q> = (0..n).map(|_| if rng.chance(1, 4) { Q::zero() } else { half(rng, -4, 4, halves) }).collect();
        let mut at = Q::zero();
        for j in 0..n {
            at = at.add(row[j].mul(wit[j]));
        }
        let rhs = match kind {
            1 | 2 => {
                out.stat("row:tight");
                at // through the witness: degenerate
            }
            3 => {
                out.stat("row:random-rhs");
                half(rng, -6, 8, halves)
            }
            4 => {
                out.stat("row:cuts-witness");
                at.sub(half(rng, 1, 3, halves))
            }
            _ => {
                out.stat("row:slack");
                at.add(half(rng, 0, 4, halves))
            }
        };
        a.push(row);
        bv.push(rhs);
    }
    Exact { n, m, c, a, b: bv, lo, up }
}

fn raw_of(e: &Exact, tols: (f64, f64)) -> Raw {
    let (ftol, otol) = tols;
    Raw {
        nv: e.n,
        nc: e.m,
        c: e.c.iter().map(|q| q.to_f64()).collect(),
        a: e.a.iter().map(|r| r.iter().map(|q| q.to_f64()).collect()).collect(),
        b: e.b.iter().map(|q| q.to_f64()).collect(),
        lo: e.lo.iter().map(|q| q.to_f64()).collect(),
        up: e.up.iter().map(|u| u.map_or(f64::INFINITY, |q| q.to_f64())).collect(),
        ftol,
        otol,
    }
}

/// every value survives the trip through f64 unchanged, and the exact oracle can handle the LP
fn usable(e: &Exact, ftol: f64) -> bool {
    let ok = |q: &Q| q.n.abs() < (1i128 << 53) && (q.d & (q.d - 1)) == 0 && f64_to_q(q.to_f64()) == Some(*q);
    e.c.iter().all(ok)
        && e.a.iter().all(|r| r.iter().all(ok))
        && e.b.iter().all(ok)
        && e.lo.iter().all(ok)
        && e.up.iter().all(|u| u.as_ref().map_or(true, ok))
        && guarded(|| {
            let _ = primal_form(e);
            let _ = truth_relaxed(e, dyadic_ceil(ftol));
            truth(e)
        })
        .is_some()
}

fn pow2(k: i64) -> Q {
    if k >= 0 { Q::int(1i128 << k) } else { Q::new(1, 1i128 << (-k)) }
}

/// a scale factor whose exponent is pushed towards the ends of [-10, 11]
fn scale_exp(rng: &mut Rng) -> i64 {
    match rng.below(6) {
        0 => 0,
        1 => rng.range(-10, -7),
        2 => rng.range(8, 11),
        _ => rng.range(-10, 11),
    }
}

/// a well-scaled base LP whose objective is a positive combination of row normals, so that those
/// rows bind at the optimum
fn base_binding(rng: &mut Rng, n: usize, m: usize, out: &mut Out) -> Exact {
    let mut e = gen_exact(rng, &Shape { n, m }, out);
    if m > 0 && rng.chance(3, 4) {
        let i = rng.below(m as u64) as usize;
        let k = rng.below(m as u64) as usize;
        for j in 0..n {
            e.c[j] = e.a[i][j].add(if k != i && rng.chance(1, 2) { e.a[k][j] } else { Q::zero() });
        }
        out.stat("objective:row-normal");
    }
    e
}

/// stream 1: BADLY SCALED data.  A well-scaled LP in y is rewritten in x = y / colscale, rows are
/// multiplied by row scales: a_ij = a0_ij * r_i * s_j, b_i = b0_i * r_i, c_j = c0_j * s_j,
/// bounds / s_j.  Scales are powers of two (columns) and powers of two times 1, 10, 1000 (rows), so
/// one row / one column holds magnitudes many orders apart and every value is exact in f64.
fn gen_scaled(rng: &mut Rng, out: &mut Out) -> Option<Exact> {
    for _ in 0..8 {
        let n = rng.range(2, 4) as usize;
        let m = rng.range(1, 4) as usize;
        let mut e = base_binding(rng, n, m, out);
        let cs: Vec<Q> = (0..n).map(|_| pow2(scale_exp(rng))).collect();
        let rs: Vec<Q> = (0..m)
            .map(|_| pow2(scale_exp(rng)).mul(Q::int(*rng.pick(&[1i128, 1, 1, 10, 1000]))))
            .collect();
        for i in 0..m {
            for j in 0..n {
                e.a[i][j] = e.a[i][j].mul(rs[i]).mul(cs[j]);
            }
            e.b[i] = e.b[i].mul(rs[i]);
        }
        for j in 0..n {
            e.c[j] = e.c[j].mul(cs[j]);
            e.lo[j] = e.lo[j].div(cs[j]);
            e.up[j] = e.up[j].map(|u| u.div(cs[j]));
        }
        if usable(&e, default_tols().0) {
            // spread of the non-zero magnitudes, in powers of two
            let mags: Vec<f64> = e.a.iter().flatten().filter(|q| !q.is_zero()).map(|q| q.abs().to_f64().log2()).collect();
            if !mags.is_empty() {
                let spread = mags.iter().cloned().fold(f64::MIN, f64::max) - mags.iter().cloned().fold(f64::MAX, f64::min);
                out.stat(&format!("scaled:spread-2^{}", ((spread / 8.0) as i64) * 8));
            }
            return Some(e);
        }
        out.stat("scaled:rejected");
    }
    None
}

const TOLS: [f64; 4] = [1e-9, 1e-6, 1e-4, 1e-2];

/// a dyadic value (small odd number times a power of two) strictly between the two tolerances
/// (next to the tolerance when they are equal)
fn between(rng: &mut Rng, t1: f64, t2: f64) -> Q {
    let (lo, hi) = if t1 < t2 { (t1, t2) } else { (t2, t1) };
    let (elo, ehi) = (lo.log2().ceil() as i64 + 1, hi.log2().floor() as i64 - 1);
    let k = if elo >= ehi { ehi } else { rng.range(elo, ehi) };
    let m = *rng.pick(&[1i128, 1, 3, 5]);
    // keep m * 2^k below the larger tolerance
    pow2(k - if m > 1 { 3 } else { 0 }).mul(Q::int(m))
}

/// stream 2: NON-DEFAULT LpConfig.  feasibility_tol and optimality_tol vary independently over
/// {1e-9, 1e-6, 1e-4, 1e-2}; one or two rows carry coefficients whose magnitude lies between the two
/// tolerances and bind at the optimum (positive objective on their variables, upper bounds of 1000,
/// so a skipped row shows as a large violation)
fn gen_config(rng: &mut Rng, out: &mut Out) -> Option<(Exact, (f64, f64))> {
    for _ in 0..8 {
        let ftol = *rng.pick(&TOLS);
        let otol = *rng.pick(&TOLS);
        let n = rng.range(2, 4) as usize;
        let m = rng.range(1, 4) as usize;
        let mut e = base_binding(rng, n, m, out);
        // wide boxes
        for j in 0..n {
            if rng.chance(2, 3) {
                e.up[j] = Some(e.lo[j].add(Q::int(*rng.pick(&[1000i128, 1000, 500, 64]))));
            }
        }
        let kind = rng.below(4);
        let tiny_rows = if kind == 3 { 0 } else { 1 + rng.below(2) as usize };
        for t in 0..tiny_rows.min(m) {
            let i = if t == 0 { rng.below(m as u64) as usize } else { (rng.below(m as u64) as usize + 1) % m };
            let mut any = false;
            // a point well inside the box at which the row is to bind
            let mut at = Q::zero();
            for j in 0..n {
                let whole_row = kind == 0 || kind == 2;
                if whole_row || rng.chance(1, 2) {
                    let v = if rng.chance(1, 4) && any { Q::zero() } else { between(rng, ftol, otol) };
                    e.a[i][j] = v;
                    any = any || !v.is_zero();
                }
                if !e.a[i][j].is_zero() && e.a[i][j].n > 0 && e.c[j].le(Q::zero()) {
                    e.c[j] = Q::int(rng.range(1, 4) as i128);
                }
                let w = e.up[j].map_or(Q::int(8), |u| u.sub(e.lo[j]));
                let xj = e.lo[j].add(w.mul(Q::new(rng.range(1, 6) as i128, 8)));
                at = at.add(e.a[i][j].mul(xj));
            }
            e.b[i] = at;
        }
        if kind >= 2 {
            // objective coefficients between the tolerances
            for j in 0..n {
                if rng.chance(1, 2) {
                    e.c[j] = between(rng, ftol, otol);
                }
            }
        }
        if usable(&e, ftol) {
            out.stat(&format!("config:ftol={ftol:e}"));
            out.stat(&format!("config:otol={otol:e}"));
            out.stat(&format!("config:kind={kind}"));
            out.stat(if ftol < otol { "config:ftol<otol" } else if ftol > otol { "config:ftol>otol" } else { "config:ftol=otol" });
            return Some((e, (ftol, otol)));
        }
        out.stat("config:rejected");
    }
    None
}

fn malformed(rng: &mut Rng, out: &mut Out) -> Raw {
    let sh = Shape { n: rng.range(1, 3) as usize, m: rng.range(0, 3) as usize };
    let e = gen_exact(rng, &sh, out);
    let mut r = raw_of(&e, default_tols());
    let specials = [f64::NAN, f64::INFINITY, f64::NEG_INFINITY, -0.0];
    let kind = rng.below(12);
    out.stat(&format!("malformed:{kind}"));
    match kind {
        0 => r.c.push(1.0),
        1 => r.nc += 1,
        2 => {
            if let Some(row) = r.a.last_mut() {
                row.push(2.0)
            } else {
                r.nv += 1
            }
        }
        3 => r.b.push(0.5),
        4 => {
            r.lo.pop();
        }
        5 => r.up.push(1.0),
        6 => {
            let j = rng.below(r.nv as u64) as usize;
            r.lo[j] = 5.0;
            r.up[j] = 3.0;
        }
        7 => {
            let j = rng.below(r.nv as u64) as usize;
            r.c[j] = *rng.pick(&specials);
        }
        8 => {
            if r.nc > 0 {
                let i = rng.below(r.nc as u64) as usize;
                let j = rng.below(r.nv as u64) as usize;
                r.a[i][j] = *rng.pick(&specials);
            } else {
                r.nv = 0
            }
        }
        9 => {
            if r.nc > 0 {
                let i = rng.below(r.nc as u64) as usize;
                r.b[i] = *rng.pick(&specials);
            } else {
                r.nc = 2
            }
        }
        10 => {
            let j = rng.below(r.nv as u64) as usize;
            r.lo[j] = *rng.pick(&[f64::NAN, f64::NEG_INFINITY, f64::INFINITY]);
        }
        _ => {
            let j = rng.below(r.nv as u64) as usize;
            r.up[j] = *rng.pick(&[f64::NAN, f64::NEG_INFINITY]);
        }
    }
    r
}

fn one_case(out: &mut Out, st: &mut State, id: &str, e: &Exact, tols: (f64, f64), relative_rhs: bool, rng: Option<&mut Rng>) {
    out.case(id);
    do_prob(out, st, raw_of(e, tols), true);
    do_sol(out, st, "cold");
    do_trace(out, st);
    do_sol(out, st, "warm-self");
    if let Some(rng) = rng {
        if rng.chance(1, 2) {
            // random claimed terminal states: subsets of the standard-form columns, sometimes
            // malformed (wrong size, repeated or out-of-range column)
            let n_ub = e.up.iter().filter(|u| u.is_some()).count();
            let rows = e.m + n_ub;
            let cols = e.n + rows;
            let (obj, x) = match &st.cold {
                Some(Outcome::Ok(s)) if rng.chance(2, 3) => (s.objective, s.x.clone()),
                _ => (0.0, vec![0.0; e.n]),
            };
            for _ in 0..2 {
                let mut pool: Vec<usize> = (0..cols).collect();
                let mut basis = vec![];
                let want = match rng.below(10) {
                    0 => rows + 1,
                    1 => rows.saturating_sub(1),
                    _ => rows,
                };
                while basis.len() < want && !pool.is_empty() {
                    let k = rng.below(pool.len() as u64) as usize;
                    basis.push(pool.swap_remove(k));
                }
                match rng.below(12) {
                    0 if !basis.is_empty() => {
                        let k = rng.below(basis.len() as u64) as usize;
                        basis[k] = cols + rng.below(2) as usize;
                    }
                    1 if basis.len() >= 2 => basis[0] = basis[1],
                    _ => {}
                }
                do_synth(out, st, obj, &x, &basis);
            }
        }
        // the documented use of the warm start: the same LP with tightened / changed right-hand sides
        if e.m > 0 && rng.chance(1, 2) {
            let mut e2 = e.clone();
            for i in 0..e2.m {
                if rng.chance(1, 2) {
                    let k = Q::new(rng.range(0, 4) as i128, 2);
                    // badly scaled rows: a change relative to the row's own magnitude
                    let d = if relative_rhs { e2.b[i].abs().mul(k).mul(Q::new(1, 4)) } else { k };
                    e2.b[i] = e2.b[i].sub(d);
                }
            }
            if relative_rhs && !usable(&e2, tols.0) {
                out.stat("warm-prev-rejected");
                return;
            }
            out.stat("warm-prev-cases");
            do_prob(out, st, raw_of(&e2, tols), false);
            do_sol(out, st, "cold");
            do_trace(out, st);
            do_sol(out, st, "warm-prev");
        }
    }
}

fn arg(args: &[String], name: &str, default: &str) -> String {
    args.iter().position(|a| a == name).and_then(|i| args.get(i + 1)).cloned().unwrap_or_else(|| default.to_string())
}

pub fn suite(out: &mut Out, seed: u64, count: u64, args: &[String]) {
    let mode = arg(args, "--mode", "random");
    let mut st = State::default();
    if mode == "exh" {
        exhaustive(out, &mut st, arg(args, "--universe", "1").parse().unwrap_or(1));
        return;
    }
    let mut master = Rng::new(seed ^ 0x4C50_0C09);
    for k in 0..count {
        let mut rng = master.fork();
        if k % 10 == 9 {
            out.case(&format!("lp-mal-{k}"));
            let r = malformed(&mut rng, out);
            do_prob(out, &mut st, r, true);
            do_sol(out, &mut st, "cold");
            continue;
        }
        let stream = rng.below(100);
        if stream < 17 {
            if let Some(e) = gen_scaled(&mut rng, out) {
                out.stat("stream:scaled");
                one_case(out, &mut st, &format!("lp-sc-{k}"), &e, default_tols(), true, Some(&mut rng));
                continue;
            }
        } else if stream < 34 {
            if let Some((e, tols)) = gen_config(&mut rng, out) {
                out.stat("stream:config");
                one_case(out, &mut st, &format!("lp-cf-{k}"), &e, tols, true, Some(&mut rng));
                continue;
            }
        }
        out.stat("stream:default");
        let sh = Shape { n: rng.range(1, 4) as usize, m: rng.range(0, 5) as usize };
        let e = gen_exact(&mut rng, &sh, out);
        one_case(out, &mut st, &format!("lp-{k}"), &e, default_tols(), false, Some(&mut rng));
    }
}

/// every LP over a tiny universe: n <= `u`+... entries in {-1,0,1}, l in {-1,0}, u-l in {0,1,inf}
fn exhaustive(out: &mut Out, st: &mut State, universe: usize) {
    let vals = [-1i128, 0, 1];
    let shapes: Vec<(usize, usize)> = match universe {
        0 => vec![(1, 0), (1, 1)],
        1 => vec![(1, 0), (1, 1), (1, 2), (2, 0)],
        _ => vec![(1, 0), (1, 1), (1, 2), (2, 0), (2, 1)],
    };
    let mut id = 0u64;
    for (n, m) in shapes {
        // digits: c (n), a (m*n), b (m) over 3 values; bounds (n) over 6 values
        let nd = n + m * n + m;
        let total3 = 3usize.pow(nd as u32);
        let total6 = 6usize.pow(n as u32);
        for t3 in 0..total3 {
            for t6 in 0..total6 {
                let mut d = t3;
                let mut next3 = || {
                    let v = vals[d % 3];
                    d /= 3;
                    Q::int(v)
                };
                let c: Vec<Q> = (0..n).map(|_| next3()).collect();
                let a: Vec<Vec<Q>> = (0..m).map(|_| (0..n).map(|_| next3()).collect()).collect();
                let bv: Vec<Q> = (0..m).map(|_| next3()).collect();
                let mut d6 = t6;
                let mut lo = vec![];
                let mut up = vec![];
                for _ in 0..n {
                    let k = d6 % 6;
                    d6 /= 6;
                    let l = Q::int(if k % 2 == 0 { 0 } else { -1 });
                    lo.push(l);
                    up.push(match k / 2 {
                        0 => Some(l),
                        1 => Some(l.add(Q::int(1))),
                        _ => None,
                    });
                }
                let e = Exact { n, m, c, a, b: bv, lo, up };
                id += 1;
                one_case(out, st, &format!("lp-exh-{id}"), &e, default_tols(), false, None);
            }
        }
    }
}

// ---------------------------------------------------------------------------------------------
// replay
// ---------------------------------------------------------------------------------------------

fn field<'a>(ws: &'a [&'a str], key: &str) -> Option<&'a str> {
    ws.iter().find_map(|w| w.strip_prefix(key).and_then(|r| r.strip_prefix('=')))
}

fn parse_f64s(s: &str) -> Option<Vec<f64>> {
    if s.is_empty() {
        return Some(vec![]);
    }
    s.split(',').map(|t| t.parse::<u64>().ok().map(f64::from_bits)).collect()
}

fn parse_raw(ws: &[&str]) -> Option<Raw> {
    let a_s = field(ws, "a")?;
    let mut rows: Vec<&str> = a_s.split(';').collect();
    rows.pop();
    Some(Raw {
        nv: field(ws, "nv")?.parse().ok()?,
        nc: field(ws, "nc")?.parse().ok()?,
        c: parse_f64s(field(ws, "c")?)?,
        a: rows.iter().map(|r| parse_f64s(r)).collect::<Option<Vec<_>>>()?,
        b: parse_f64s(field(ws, "b")?)?,
        lo: parse_f64s(field(ws, "lo")?)?,
        up: parse_f64s(field(ws, "up")?)?,
        ftol: f64::from_bits(field(ws, "ftol")?.parse().ok()?),
        otol: f64::from_bits(field(ws, "otol")?.parse().ok()?),
    })
}

/// replay of one protocol line of this suite inside the current case: the problem data are taken
/// from the line, the solver is RE-RUN (the recorded results on `lp.sol` lines are ignored)
pub fn replay_line(out: &mut Out, line: &str) {
    let ws: Vec<&str> = line.split_whitespace().collect();
    REPLAY.with(|cell| {
        let mut st = cell.borrow_mut();
        match ws.first().copied() {
            Some("lp.prob") => {
                if let Some(raw) = parse_raw(&ws) {
                    let first = ws.get(1).copied() != Some("next");
                    do_prob(out, &mut st, raw, first);
                } else {
                    out.emit(line, "unparsed");
                }
            }
            Some("lp.trace") => {
                let before = out.ops.len();
                do_trace(out, &mut st);
                if out.ops.len() == before {
                    out.emit(line, "no-trace");
                }
            }
            Some("lp.sol") if ws.get(1).copied() == Some("synth") => {
                let parsed = (|| {
                    let obj = f64::from_bits(field(&ws, "obj")?.parse().ok()?);
                    let x = parse_f64s(field(&ws, "x")?)?;
                    let bs = field(&ws, "basis")?;
                    let basis: Vec<usize> =
                        if bs.is_empty() { vec![] } else { bs.split(',').map(|t| t.parse().ok()).collect::<Option<Vec<_>>>()? };
                    Some((obj, x, basis))
                })();
                match parsed {
                    Some((obj, x, basis)) if st.raw.is_some() => do_synth(out, &st, obj, &x, &basis),
                    _ => {
                        out.emit(line, "unparsed");
                    }
                }
            }
            Some("lp.sol") => {
                let path = ws.get(1).copied().unwrap_or("cold").to_string();
                let before = out.ops.len();
                do_sol(out, &mut st, &path);
                if out.ops.len() == before {
                    out.emit(line, "no-warm-source");
                }
            }
            _ => {
                out.emit(line, "unparsed");
            }
        }
    });
}

//! `sd.*` ops: the specialised Sudoku solver (`selen::solvers::sudoku`) driven through its public
//! API plus the add-only recorder hook `verif_hooks::sudoku_event` (posted singles and naked-pair
//! removals), with an independent backtracking solver / validity checker as the C18 oracle.
//!
//! Every op carries its own grid (81 integers, row-major):
//!   sd.cand   <81>            candidate masks after `SudokuSolver::new`
//!   sd.tech   <k> <81>        `apply_advanced_techniques` k times (flag + events each), masks after
//!   sd.solve  <81>            all recorded events of `solve()` in program order
//!   sd.verify <81>            `SudokuSolver::verify_solution`
//!   sd.result <81> none|<81>  the answer of `solve()`; the model decides whether that answer is
//!                             allowed by (27 alldiff ∧ domains ∧ posted singles)
use crate::out::{b, guarded, Out};
use crate::rng::Rng;
use selen::prelude::*;
use selen::solvers::sudoku::SudokuSolver;
use selen::verif_hooks as vh;

type Grid = [[i32; 9]; 9];

// ---------------------------------------------------------------------------------------------
// independent oracle: validity checker and a bit-mask backtracking solver (own code, no selen)
// ---------------------------------------------------------------------------------------------

fn box_of(r: usize, c: usize) -> usize {
    (r / 3) * 3 + c / 3
}

/// complete, all cells 1..9, every row/column/box a permutation
fn oracle_valid(g: &Grid) -> bool {
    let mut rows = [0u16; 9];
    let mut cols = [0u16; 9];
    let mut boxs = [0u16; 9];
    for r in 0..9 {
        for c in 0..9 {
            let v = g[r][c];
            if !(1..=9).contains(&v) {
                return false;
            }
            let bit = 1u16 << v;
            if rows[r] & bit != 0 || cols[c] & bit != 0 || boxs[box_of(r, c)] & bit != 0 {
                return false;
            }
            rows[r] |= bit;
            cols[c] |= bit;
            boxs[box_of(r, c)] |= bit;
        }
    }
    true
}

fn oracle_agrees(clues: &Grid, s: &Grid) -> bool {
    (0..9).all(|r| (0..9).all(|c| clues[r][c] == 0 || clues[r][c] == s[r][c]))
}

struct Bt {
    g: Grid,
    rows: [u16; 9],
    cols: [u16; 9],
    boxs: [u16; 9],
    sols: Vec<Grid>,
    limit: usize,
    nodes: u64,
    /// digit order used when branching (randomised for grid generation)
    order: [i32; 9],
}

impl Bt {
    /// `None` if the clues themselves are contradictory / out of range
    fn new(clues: &Grid, limit: usize, order: [i32; 9]) -> Option<Bt> {
        let mut b = Bt { g: *clues, rows: [0; 9], cols: [0; 9], boxs: [0; 9], sols: vec![], limit, nodes: 0, order };
        for r in 0..9 {
            for c in 0..9 {
                let v = clues[r][c];
                if v == 0 {
                    continue;
                }
                if !(1..=9).contains(&v) {
                    return None;
                }
                let bit = 1u16 << v;
                if b.rows[r] & bit != 0 || b.cols[c] & bit != 0 || b.boxs[box_of(r, c)] & bit != 0 {
                    return None;
                }
                b.rows[r] |= bit;
                b.cols[c] |= bit;
                b.boxs[box_of(r, c)] |= bit;
            }
        }
        Some(b)
    }
    fn run(&mut self) {
        if self.sols.len() >= self.limit {
            return;
        }
        self.nodes += 1;
        // most constrained empty cell
        let mut best: Option<(usize, usize, u16, u32)> = None;
        for r in 0..9 {
            for c in 0..9 {
                if self.g[r][c] == 0 {
                    let used = self.rows[r] | self.cols[c] | self.boxs[box_of(r, c)];
                    let free = !used & 0b11_1111_1110;
                    let n = free.count_ones();
                    if n == 0 {
                        return;
                    }
                    if best.map_or(true, |x| n < x.3) {
                        best = Some((r, c, free, n));
                    }
                }
            }
        }
        let Some((r, c, free, _)) = best else {
            self.sols.push(self.g);
            return;
        };
        for &d in &self.order.clone() {
            let bit = 1u16 << d;
            if free & bit == 0 {
                continue;
            }
            self.g[r][c] = d;
            self.rows[r] |= bit;
            self.cols[c] |= bit;
            self.boxs[box_of(r, c)] |= bit;
            self.run();
            self.g[r][c] = 0;
            self.rows[r] &= !bit;
            self.cols[c] &= !bit;
            self.boxs[box_of(r, c)] &= !bit;
            if self.sols.len() >= self.limit {
                return;
            }
        }
    }
}

const ASC: [i32; 9] = [1, 2, 3, 4, 5, 6, 7, 8, 9];

/// up to `limit` completions of the clue grid
fn oracle_solutions(clues: &Grid, limit: usize) -> Vec<Grid> {
    match Bt::new(clues, limit, ASC) {
        None => vec![],
        Some(mut b) => {
            b.run();
            b.sols
        }
    }
}

// ---------------------------------------------------------------------------------------------
// the implementation under test
// ---------------------------------------------------------------------------------------------

fn grid_arg(g: &Grid) -> String {
    let mut s = String::with_capacity(200);
    for r in 0..9 {
        for c in 0..9 {
            if !s.is_empty() {
                s.push(' ');
            }
            s.push_str(&g[r][c].to_string());
        }
    }
    s
}

fn parse_grid(ws: &[&str]) -> Option<Grid> {
    if ws.len() != 81 {
        return None;
    }
    let mut g = [[0i32; 9]; 9];
    for (i, w) in ws.iter().enumerate() {
        g[i / 9][i % 9] = w.parse().ok()?;
    }
    Some(g)
}

fn show_cands(s: &SudokuSolver) -> String {
    let cs = s.get_candidates();
    let mut v = Vec::with_capacity(81);
    for r in 0..9 {
        for c in 0..9 {
            let mut m = 0u32;
            for d in 1..=9 {
                if cs[r][c].contains(d) {
                    m |= 1 << (d - 1);
                }
            }
            v.push(m.to_string());
        }
    }
    format!("[{}]", v.join(","))
}

type Evt = (u8, usize, usize, i32);

fn show_evs(evs: &[Evt]) -> String {
    let v: Vec<String> = evs.iter().map(|(k, r, c, d)| format!("{k}:{r}:{c}:{d}")).collect();
    format!("[{}]", v.join(","))
}

fn op_cand(out: &mut Out, g: &Grid) -> usize {
    let res = guarded(|| show_cands(&SudokuSolver::new(*g)));
    out.emit(format!("sd.cand {}", grid_arg(g)), res.map(|s| format!("cands={s}")).unwrap_or_else(|| "panic".into()))
}

fn op_tech(out: &mut Out, k: usize, g: &Grid) -> usize {
    let res = guarded(|| {
        let mut s = SudokuSolver::new(*g);
        let mut acc = String::new();
        for _ in 0..k {
            vh::sudoku_record_start();
            let p = s.apply_advanced_techniques();
            let evs = vh::sudoku_record_take();
            acc.push_str(&format!("p={} ev={} | ", b(p), show_evs(&evs)));
        }
        acc.push_str(&format!("cands={}", show_cands(&s)));
        acc
    });
    let _ = vh::sudoku_record_take();
    out.emit(format!("sd.tech {k} {}", grid_arg(g)), res.unwrap_or_else(|| "panic".into()))
}

/// outcome of the real `SudokuSolver::new(g).solve()`
enum Outcome {
    Panic,
    /// events, what the general solver answered inside `solve` (hook `sudoku_solve_status`:
    /// 0 Ok, 1 NoSolution, 2 Timeout, 3 MemoryLimit, 4 ConflictingConstraints, 5 other error),
    /// the returned grid
    Done(Vec<Evt>, u8, Option<Grid>),
}

thread_local! {
    /// iteration budget of one `solve()`: hook H6 lets the `BUDGET`-th limit check of the search
    /// find the time-out exceeded (a deterministic, machine-independent stand-in for the default
    /// 60 s time-out of `Model::default()`); 0 = leave the real clock in charge
    static BUDGET: std::cell::Cell<usize> = const { std::cell::Cell::new(DEFAULT_BUDGET) };
}
const DEFAULT_BUDGET: usize = 3_000;

fn with_budget<T>(f: impl FnOnce() -> T) -> T {
    let k = BUDGET.with(|c| c.get());
    if k > 0 {
        vh::set_fire_at(Some((k, 0)));
    }
    let r = f();
    vh::set_fire_at(None);
    r
}

fn run_solve(g: &Grid) -> Outcome {
    let _ = vh::sudoku_take_status();
    let r = with_budget(|| {
        guarded(|| {
            vh::sudoku_record_start();
            let s = SudokuSolver::new(*g);
            let res = s.solve();
            (vh::sudoku_record_take(), res.solution)
        })
    });
    let status = vh::sudoku_take_status();
    match r {
        None => {
            let _ = vh::sudoku_record_take();
            Outcome::Panic
        }
        Some((evs, sol)) => Outcome::Done(evs, status.unwrap_or(9), sol),
    }
}

fn emit_solve(out: &mut Out, g: &Grid, oc: &Outcome) -> usize {
    let res = match oc {
        Outcome::Panic => "panic".to_string(),
        Outcome::Done(evs, _, _) => {
            let posted = evs.iter().filter(|e| e.0 <= 3).count();
            format!("n={} posted={} ev={}", evs.len(), posted, show_evs(evs))
        }
    };
    out.emit(format!("sd.solve {}", grid_arg(g)), res)
}

fn emit_result(out: &mut Out, g: &Grid, oc: &Outcome) -> usize {
    match oc {
        Outcome::Panic => out.emit(format!("sd.result {} 9 none", grid_arg(g)), "panic"),
        // `solve` turns every `Err` of the general solver into `None`; `why` = which `Err`
        Outcome::Done(_, st, None) => out.emit(format!("sd.result {} {st} none", grid_arg(g)), format!("res=none why={st}")),
        Outcome::Done(_, st, Some(s)) => {
            // the implementation claims its answer solves its own constraint set (`member=1`);
            // `valid` is its own `verify_solution` plus agreement with the clues
            let valid = guarded(|| SudokuSolver::verify_solution(s)).unwrap_or(false) && oracle_agrees(g, s);
            out.emit(format!("sd.result {} {st} {}", grid_arg(g), grid_arg(s)), format!("res=some member=1 valid={}", b(valid)))
        }
    }
}

fn op_verify(out: &mut Out, s: &Grid) -> usize {
    let v = guarded(|| SudokuSolver::verify_solution(s));
    let line = out.emit(format!("sd.verify {}", grid_arg(s)), v.map(|v| format!("v={}", b(v))).unwrap_or_else(|| "panic".into()));
    // oracle: verify_solution == independent validity check
    match v {
        None => out.fail(line, "C18", "-", "verify_solution panicked"),
        Some(v) if v != oracle_valid(s) => out.fail(line, "C18", "-", format!("verify_solution={v} but independent checker says {}", !v)),
        _ => {}
    }
    line
}

/// the same puzzle on the general solver: 81 variables, 27 alldiff
fn general_solver(g: &Grid) -> Option<Result<Grid, bool>> {
    with_budget(|| general_solver_inner(g))
}

/// `Ok(grid)`, `Err(true)` = a resource limit was hit (no verdict), `Err(false)` = no solution
fn general_solver_inner(g: &Grid) -> Option<Result<Grid, bool>> {
    guarded(|| {
        let mut m = Model::default();
        let mut vars = Vec::new();
        for r in 0..9 {
            let mut row = Vec::new();
            for c in 0..9 {
                row.push(if g[r][c] != 0 { m.int(g[r][c], g[r][c]) } else { m.int(1, 9) });
            }
            vars.push(row);
        }
        for r in 0..9 {
            m.alldiff(&vars[r]);
        }
        for c in 0..9 {
            let col: Vec<VarId> = (0..9).map(|r| vars[r][c]).collect();
            m.alldiff(&col);
        }
        for br in 0..3 {
            for bc in 0..3 {
                let mut bx = Vec::new();
                for r in 0..3 {
                    for c in 0..3 {
                        bx.push(vars[br * 3 + r][bc * 3 + c]);
                    }
                }
                m.alldiff(&bx);
            }
        }
        match m.solve() {
            Ok(sol) => {
                let mut s = [[0i32; 9]; 9];
                for r in 0..9 {
                    for c in 0..9 {
                        if let Val::ValI(v) = sol[vars[r][c]] {
                            s[r][c] = v;
                        }
                    }
                }
                Ok(s)
            }
            Err(SolverError::Timeout { .. }) | Err(SolverError::MemoryLimit { .. }) => Err(true),
            Err(_) => Err(false),
        }
    })
}

fn out_of_range(g: &Grid) -> bool {
    g.iter().flatten().any(|&v| !(0..=9).contains(&v))
}

fn units() -> Vec<Vec<(usize, usize)>> {
    let mut u = Vec::new();
    for r in 0..9 {
        u.push((0..9).map(|c| (r, c)).collect());
    }
    for c in 0..9 {
        u.push((0..9).map(|r| (r, c)).collect());
    }
    for br in 0..3 {
        for bc in 0..3 {
            let mut b = Vec::new();
            for r in 0..3 {
                for c in 0..3 {
                    b.push((br * 3 + r, bc * 3 + c));
                }
            }
            u.push(b);
        }
    }
    u
}

/// C18 oracle for one solved puzzle. `line` = the `sd.result` line. Returns the outcome label.
fn oracle_c18(out: &mut Out, line: usize, g: &Grid, oc: &Outcome, with_general: bool) -> &'static str {
    let sols = oracle_solutions(g, 64);
    let exists = !sols.is_empty();
    out.stat(match sols.len() {
        0 => "completions=0",
        1 => "completions=1",
        2..=63 => "completions=2..63",
        _ => "completions>=64",
    });
    // matcher of the known finding: the grid has a clue outside 0..=9 (no completion exists) and
    // the solver panics (debug profile) or hands back a grid containing that clue (release profile)
    let tag_range = if out_of_range(g) { "clue-out-of-range" } else { "-" };
    match oc {
        Outcome::Panic => {
            out.stat("outcome=panic");
            out.fail(line, "C18", tag_range, format!("solve panicked (completion exists: {exists})"));
            "panic"
        }
        Outcome::Done(evs, st, res) => {
            // matcher of the known finding: the general solver stopped at a resource limit
            // (`Err(Timeout)` / `Err(MemoryLimit)`) and `solve` reports that as `None`
            let tag_limit = if *st == 2 || *st == 3 { "limit-as-none" } else { "-" };
            out.stat(&format!("general-status={st}"));
            // (a) every posted single holds in every completion (checked on up to 64 of them)
            for &(k, r, c, d) in evs.iter().filter(|e| e.0 <= 3) {
                if let Some(s) = sols.iter().find(|s| s[r][c] != d) {
                    out.fail(line, "C18", "-", format!("posted single kind {k} ({r},{c})=={d} excludes the completion {}", grid_arg(s)));
                    break;
                }
            }
            match res {
                Some(s) => {
                    out.stat("outcome=some");
                    // (b) returned grid is complete, valid, agrees with every clue
                    if !oracle_valid(s) {
                        out.fail(line, "C18", tag_range, format!("returned grid is not a valid sudoku: {}", grid_arg(s)));
                    } else if !oracle_agrees(g, s) {
                        out.fail(line, "C18", "-", format!("returned grid contradicts a clue: {}", grid_arg(s)));
                    } else if !exists {
                        out.fail(line, "C18", "-", "oracle found no completion but the returned grid is one (oracle bug)");
                    }
                }
                None => {
                    out.stat("outcome=none");
                    // (c) None only when no completion exists
                    if exists {
                        out.fail(line, "C18", tag_limit, format!("returned None (general solver status {st}) but a completion exists: {}", grid_arg(&sols[0])));
                    }
                }
            }
            // (d) verdict agrees with the general solver on the same puzzle (81 variables with the
            // clue domains, 27 alldiff); for clues in range its answer must be a completion too
            if with_general {
                match general_solver(g) {
                    None => out.fail(line, "C18", "-", "general solver panicked"),
                    Some(Err(true)) => out.stat("general-solver-limit"),
                    Some(gs) => {
                        if gs.is_ok() != res.is_some() {
                            out.fail(line, "C18", tag_limit, format!("verdict differs: specialised {} general {}", res.is_some(), gs.is_ok()));
                        }
                        if let Ok(s) = gs {
                            if !out_of_range(g) && !(oracle_valid(&s) && oracle_agrees(g, &s)) {
                                out.fail(line, "C18", "-", format!("general solver returned an invalid grid: {}", grid_arg(&s)));
                            }
                        }
                    }
                }
            }
            if res.is_some() { "some" } else { "none" }
        }
    }
}

/// the convenience entry points answer what `SudokuSolver::new(g).solve()` answers:
/// `solve_sudoku(g)`, `solve_sudoku_string(s)` with `s` the 81-character spelling of `g` (both
/// spellings of an empty cell), `parse_string(s) == g`, `original_puzzle() == g`, `clue_count()`
fn entry_points_agree(out: &mut Out, line: usize, g: &Grid, oc: &Outcome) {
    use selen::solvers::sudoku::{solve_sudoku, solve_sudoku_string};
    let Outcome::Done(_, _, want) = oc else { return };
    if g.iter().flatten().any(|v| !(0..=9).contains(v)) {
        return;
    }
    let r = with_budget(|| guarded(|| solve_sudoku(*g)));
    match r {
        None => out.fail(line, "C18", "-", "solve_sudoku panicked where SudokuSolver::solve did not"),
        Some(got) if got != *want => out.fail(line, "C18", "-", format!("solve_sudoku answers {:?} but SudokuSolver::solve {:?}", got.map(|s| grid_arg(&s)), want.map(|s| grid_arg(&s)))),
        _ => {}
    }
    for dot in [false, true] {
        let text: String = g.iter().flatten().map(|v| if *v == 0 && dot { '.' } else { char::from_digit(*v as u32, 10).unwrap() }).collect();
        match guarded(|| SudokuSolver::parse_string(&text)) {
            Some(Ok(p)) if p == *g => {}
            other => out.fail(line, "C18", "-", format!("parse_string does not give back the grid: {:?}", other.map(|r| r.map(|p| grid_arg(&p))))),
        }
        let r = with_budget(|| guarded(|| solve_sudoku_string(&text)));
        match r {
            None => out.fail(line, "C18", "-", "solve_sudoku_string panicked where SudokuSolver::solve did not"),
            Some(got) if got != *want => out.fail(line, "C18", "-", format!("solve_sudoku_string answers {:?} but SudokuSolver::solve {:?}", got.map(|s| grid_arg(&s)), want.map(|s| grid_arg(&s)))),
            _ => {}
        }
    }
    let meta = guarded(|| { let s = SudokuSolver::new(*g); (s.original_puzzle(), s.clue_count()) });
    match meta {
        Some((p, n)) if p == *g && n == g.iter().flatten().filter(|v| **v != 0).count() => {}
        other => out.fail(line, "C18", "-", format!("original_puzzle / clue_count disagree with the grid: {:?}", other.map(|(p, n)| (grid_arg(&p), n)))),
    }
    out.stat("entry-points-compared");
}

/// all ops for one clue grid
fn run_case(out: &mut Out, rng: &mut Rng, g: &Grid, full: bool) -> &'static str {
    if full || rng.chance(1, 3) {
        op_cand(out, g);
    }
    if full || rng.chance(1, 2) {
        let k = rng.range(1, 3) as usize;
        op_tech(out, k, g);
    }
    let oc = run_solve(g);
    emit_solve(out, g, &oc);
    let line = emit_result(out, g, &oc);
    let label = oracle_c18(out, line, g, &oc, full || rng.chance(1, 2));
    if full || rng.chance(1, 2) {
        entry_points_agree(out, line, g, &oc);
    }
    if let Outcome::Done(evs, _, res) = &oc {
        out.stat_n("posted-singles", evs.iter().filter(|e| e.0 <= 3).count() as u64);
        out.stat_n("pair-removals", evs.iter().filter(|e| e.0 > 3).count() as u64);
        if evs.iter().any(|e| e.0 > 3) {
            out.stat("cases-with-pair-removals");
        }
        if evs.is_empty() {
            out.stat("cases-without-events");
        }
        if let Some(s) = res {
            op_verify(out, s);
            // perturbed copies: swap / overwrite / out-of-range
            let mut t = *s;
            let (r, c) = (rng.below(9) as usize, rng.below(9) as usize);
            match rng.below(4) {
                0 => t[r][c] = rng.range(1, 9) as i32,
                1 => t[r][c] = *rng.pick(&[0, 10, -1, 11, i32::MAX, i32::MIN, -9]),
                2 => {
                    let c2 = rng.below(9) as usize;
                    let x = t[r][c];
                    t[r][c] = t[r][c2];
                    t[r][c2] = x;
                }
                _ => {
                    let r2 = rng.below(9) as usize;
                    let x = t[r][c];
                    t[r][c] = t[r2][c];
                    t[r2][c] = x;
                }
            }
            op_verify(out, &t);
        }
    }
    label
}

// ---------------------------------------------------------------------------------------------
// generators
// ---------------------------------------------------------------------------------------------

fn shuffled(rng: &mut Rng) -> [i32; 9] {
    let mut o = ASC;
    for i in (1..9).rev() {
        let j = rng.below(i as u64 + 1) as usize;
        o.swap(i, j);
    }
    o
}

/// a uniformly-ish random solved grid: random first row, randomised branching order
fn random_solved(rng: &mut Rng) -> Grid {
    let mut g = [[0i32; 9]; 9];
    g[0] = shuffled(rng);
    // a few more random seeds in the last box keep the search shallow but varied
    let mut bt = Bt::new(&g, 1, shuffled(rng)).unwrap();
    bt.run();
    bt.sols[0]
}

fn cells_shuffled(rng: &mut Rng) -> Vec<(usize, usize)> {
    let mut v: Vec<(usize, usize)> = (0..81).map(|i| (i / 9, i % 9)).collect();
    for i in (1..81).rev() {
        let j = rng.below(i as u64 + 1) as usize;
        v.swap(i, j);
    }
    v
}

/// keep exactly `k` clues of `s`
fn keep_clues(rng: &mut Rng, s: &Grid, k: usize) -> Grid {
    let mut g = [[0i32; 9]; 9];
    for &(r, c) in cells_shuffled(rng).iter().take(k) {
        g[r][c] = s[r][c];
    }
    g
}

/// remove clues while the completion stays unique (a locally minimal puzzle, typically 21..27 clues)
fn minimal_unique(rng: &mut Rng, s: &Grid, stop_at: usize) -> Grid {
    let mut g = *s;
    let mut n = 81;
    for (r, c) in cells_shuffled(rng) {
        if n <= stop_at {
            break;
        }
        let v = g[r][c];
        g[r][c] = 0;
        if oracle_solutions(&g, 2).len() != 1 {
            g[r][c] = v;
        } else {
            n -= 1;
        }
    }
    g
}

fn parse81(s: &str) -> Grid {
    let mut g = [[0i32; 9]; 9];
    for (i, ch) in s.chars().enumerate() {
        g[i / 9][i % 9] = ch.to_digit(10).unwrap_or(0) as i32;
    }
    g
}

/// validity-preserving symmetry: relabel digits, permute rows within bands / bands / same for
/// columns, transpose
fn symmetry(rng: &mut Rng, g: &Grid) -> Grid {
    let relabel = shuffled(rng);
    let perm3 = |rng: &mut Rng| {
        let mut p = [0usize, 1, 2];
        for i in (1..3).rev() {
            let j = rng.below(i as u64 + 1) as usize;
            p.swap(i, j);
        }
        p
    };
    let mut rows = [0usize; 9];
    let mut cols = [0usize; 9];
    for which in 0..2 {
        let bands = perm3(rng);
        for b in 0..3 {
            let inner = perm3(rng);
            for i in 0..3 {
                let v = bands[b] * 3 + inner[i];
                if which == 0 {
                    rows[b * 3 + i] = v;
                } else {
                    cols[b * 3 + i] = v;
                }
            }
        }
    }
    let tr = rng.chance(1, 2);
    let mut o = [[0i32; 9]; 9];
    for r in 0..9 {
        for c in 0..9 {
            let v = if tr { g[cols[c]][rows[r]] } else { g[rows[r]][cols[c]] };
            o[r][c] = if v == 0 { 0 } else { relabel[(v - 1) as usize] };
        }
    }
    o
}

/// published puzzles with a unique solution (checked by the oracle when they are used):
/// two 17-clue puzzles, the example of the crate's documentation, two hard ones
const KNOWN: [&str; 5] = [
    "000000010400000000020000000000050407008000300001090000300400200050100000000806000",
    "000000012000035000000600070700000300000400800100000000000120000080000040050000600",
    "530070000600195000098000060800060003400803001700020006060000280000419005000080079",
    "800000000003600000070090200050007000000045700000100030001000068008500010090000400",
    "100007090030020008009600500005300900010080002600004000300000010040000007007000300",
];

fn gen_case(rng: &mut Rng, out: &mut Out) -> (Grid, &'static str) {
    let kind = rng.below(100);
    let s = random_solved(rng);
    match kind {
        0..=11 => {
            // locally minimal unique puzzles (17..27 clues, in practice 21..27)
            (minimal_unique(rng, &s, 17), "unique-minimal")
        }
        12..=20 => {
            // unique, stopped early at a random clue count 26..50
            let stop = rng.range(26, 50) as usize;
            (minimal_unique(rng, &s, stop), "unique-mid")
        }
        21 => {
            // published hard / 17-clue puzzles under a random symmetry (slow in the real solver:
            // rare, and the slowest one only in the fixed corpus)
            if rng.chance(1, 2) {
                return (minimal_unique(rng, &s, 17), "unique-minimal");
            }
            let base = parse81(KNOWN[[0usize, 2, 3, 4][rng.below(4) as usize]]);
            (symmetry(rng, &base), "known-17-hard")
        }
        22..=33 => {
            // unique, stopped early at a random clue count 26..50
            let stop = rng.range(26, 50) as usize;
            (minimal_unique(rng, &s, stop), "unique-mid")
        }
        34..=45 => {
            // plain removal to 17..25 clues (mostly many completions)
            let k = rng.range(17, 25) as usize;
            (keep_clues(rng, &s, k), "removal-17-25")
        }
        46..=53 => {
            let k = rng.range(26, 60) as usize;
            (keep_clues(rng, &s, k), "removal-26-60")
        }
        54..=56 => {
            let k = rng.range(0, 16) as usize;
            (keep_clues(rng, &s, k), "removal-0-16")
        }
        57..=65 => {
            // nearly full
            let k = rng.range(76, 81) as usize;
            (keep_clues(rng, &s, k), "nearly-full")
        }
        66..=68 => ([[0; 9]; 9], "empty"),
        69..=73 => {
            // clues on a diagonal only (from a solved grid: consistent; random digits: maybe not)
            let mut g = [[0i32; 9]; 9];
            let anti = rng.chance(1, 2);
            let random_digits = rng.chance(1, 2);
            for i in 0..9 {
                let c = if anti { 8 - i } else { i };
                if rng.chance(5, 6) {
                    g[i][c] = if random_digits { rng.range(1, 9) as i32 } else { s[i][c] };
                }
            }
            (g, "diagonal")
        }
        74..=81 => {
            // contradictory: duplicate digit in a unit of a partial grid
            let k = rng.range(20, 60) as usize;
            let mut g = keep_clues(rng, &s, k);
            let us = units();
            let u = rng.pick(&us).clone();
            let given: Vec<(usize, usize)> = u.iter().cloned().filter(|&(r, c)| g[r][c] != 0).collect();
            let (sr, sc) = if given.is_empty() { u[0] } else { *rng.pick(&given) };
            let v = s[sr][sc];
            g[sr][sc] = v;
            let others: Vec<(usize, usize)> = u.iter().cloned().filter(|&p| p != (sr, sc)).collect();
            let (tr, tc) = *rng.pick(&others);
            g[tr][tc] = v;
            (g, "dup-in-unit")
        }
        82..=88 => {
            // two equal clues inside a FULLY GIVEN unit (rest of the grid partially / fully given)
            let k = *rng.pick(&[0usize, 10, 30, 60, 81]);
            let mut g = keep_clues(rng, &s, k);
            let us = units();
            let u = rng.pick(&us).clone();
            for &(r, c) in &u {
                g[r][c] = s[r][c];
            }
            let a = rng.below(9) as usize;
            let mut bq = rng.below(9) as usize;
            if bq == a {
                bq = (a + 1) % 9;
            }
            g[u[a].0][u[a].1] = s[u[bq].0][u[bq].1];
            (g, "dup-in-full-unit")
        }
        89..=93 => {
            // deep contradiction: a unique puzzle with one clue changed to another value that
            // has no direct conflict (if there is one)
            let stop = rng.range(24, 40) as usize;
            let mut g = minimal_unique(rng, &s, stop);
            let clues: Vec<(usize, usize)> = (0..81).map(|i| (i / 9, i % 9)).filter(|&(r, c)| g[r][c] != 0).collect();
            let (r, c) = *rng.pick(&clues);
            let old = g[r][c];
            g[r][c] = 0;
            let free: Vec<i32> = (1..=9)
                .filter(|&d| d != old && Bt::new(&{ let mut h = g; h[r][c] = d; h }, 1, ASC).is_some())
                .collect();
            g[r][c] = if free.is_empty() { old } else { *rng.pick(&free) };
            (g, "one-clue-changed")
        }
        94..=96 => {
            // a digit outside 1..9
            let k = rng.range(0, 40) as usize;
            let mut g = keep_clues(rng, &s, k);
            let (r, c) = (rng.below(9) as usize, rng.below(9) as usize);
            g[r][c] = *rng.pick(&[10, -1, 11, 16, 17, 100, -5, i32::MAX, i32::MIN]);
            (g, "out-of-range")
        }
        _ => {
            // malformed stream: independent random cells
            let dens = rng.range(5, 60) as u64;
            let mut g = [[0i32; 9]; 9];
            for r in 0..9 {
                for c in 0..9 {
                    if rng.chance(dens, 100) {
                        g[r][c] = rng.range(1, 9) as i32;
                    }
                }
            }
            let _ = out;
            (g, "random-cells")
        }
    }
}

/// `--exh`: the complete neighbourhood of one random solved grid: every single blank (81), every
/// double blank (3240), every single-cell corruption of the full grid (648: a duplicate inside
/// three FULLY GIVEN units), every blank + corruption of a cell of the same row (81*8*8 would be
/// too many: only the cells of the first row, 9*8*8 = 576)
fn exhaustive(out: &mut Out, seed: u64) {
    let mut rng = Rng::new(seed ^ 0x5D0C_18E).fork();
    let s = random_solved(&mut rng);
    let mut n = 0u64;
    let mut one = |out: &mut Out, g: &Grid, kind: &str| {
        out.case(&format!("sx{n}"));
        n += 1;
        let oc = run_solve(g);
        emit_solve(out, g, &oc);
        let line = emit_result(out, g, &oc);
        let label = oracle_c18(out, line, g, &oc, true);
        out.stat(&format!("kind={kind}/{label}"));
    };
    for i in 0..81 {
        let mut g = s;
        g[i / 9][i % 9] = 0;
        one(out, &g, "exh-blank1");
        for j in i + 1..81 {
            let mut h = g;
            h[j / 9][j % 9] = 0;
            one(out, &h, "exh-blank2");
        }
        for d in 1..=9 {
            if d != s[i / 9][i % 9] {
                let mut h = s;
                h[i / 9][i % 9] = d;
                one(out, &h, "exh-corrupt1");
            }
        }
    }
    for c in 0..9 {
        for c2 in 0..9 {
            if c2 == c {
                continue;
            }
            for d in 1..=9 {
                if d != s[0][c2] {
                    let mut h = s;
                    h[0][c] = 0;
                    h[0][c2] = d;
                    one(out, &h, "exh-blank1-corrupt1");
                }
            }
        }
    }
}

pub fn suite(out: &mut Out, seed: u64, count: u64, args: &[String]) {
    if args.iter().any(|a| a == "--exh") {
        return exhaustive(out, seed);
    }
    let full = args.iter().any(|a| a == "--full");
    let user_budget: Option<usize> = args.iter().position(|a| a == "--budget").and_then(|i| args.get(i + 1)).and_then(|v| v.parse().ok());
    let mut root = Rng::new(seed ^ 0x5D0C_18);
    // fixed corpus first
    let mut fixed: Vec<(Grid, &'static str)> = vec![([[0; 9]; 9], "empty")];
    for (i, k) in KNOWN.iter().enumerate() {
        // KNOWN[1] keeps the real solver busy for several seconds: only with `--full`
        if i != 1 || full {
            fixed.push((parse81(k), "known-17-hard"));
        }
    }
    for i in 0..count {
        let mut rng = root.fork();
        out.case(&format!("sd{i}"));
        let (g, kind) = if (i as usize) < fixed.len() { fixed[i as usize] } else { gen_case(&mut rng, out) };
        out.stat(&format!("kind={kind}"));
        let clues = g.iter().flatten().filter(|&&v| v != 0).count();
        out.stat(&format!(
            "clues={}",
            match clues {
                0 => "0",
                1..=16 => "1-16",
                17..=25 => "17-25",
                26..=40 => "26-40",
                41..=75 => "41-75",
                _ => "76-81",
            }
        ));
        // the published hard puzzles are meant to be solved to the end: larger budget
        BUDGET.with(|c| c.set(user_budget.unwrap_or(if kind == "known-17-hard" { 10 * DEFAULT_BUDGET } else { DEFAULT_BUDGET })));
        let label = run_case(out, &mut rng, &g, full);
        BUDGET.with(|c| c.set(DEFAULT_BUDGET));
        out.stat(&format!("kind={kind}/{label}"));
    }
}

/// replay of one protocol line of this suite inside the current case
pub fn replay_line(out: &mut Out, line: &str) {
    let ws: Vec<&str> = line.split_whitespace().collect();
    match ws[0] {
        "sd.cand" => {
            if let Some(g) = parse_grid(&ws[1..]) {
                op_cand(out, &g);
            }
        }
        "sd.tech" => {
            if let (Some(k), Some(g)) = (ws.get(1).and_then(|k| k.parse().ok()), parse_grid(ws.get(2..).unwrap_or(&[]))) {
                op_tech(out, k, &g);
            }
        }
        "sd.solve" => {
            if let Some(g) = parse_grid(&ws[1..]) {
                let oc = run_solve(&g);
                emit_solve(out, &g, &oc);
            }
        }
        "sd.verify" => {
            if let Some(g) = parse_grid(&ws[1..]) {
                op_verify(out, &g);
            }
        }
        "sd.result" => {
            // the recorded answer is NOT reused: the puzzle is solved again
            if let Some(g) = ws.get(1..82).and_then(parse_grid) {
                let oc = run_solve(&g);
                let l = emit_result(out, &g, &oc);
                let _ = oracle_c18(out, l, &g, &oc, true);
            }
        }
        _ => {}
    }
}

//! One xorshift64* PRNG; every random choice of a run derives from it.
pub struct Rng(pub u64);

impl Rng {
    pub fn new(seed: u64) -> Self {
        let mut r = Rng(seed.wrapping_mul(0x9E3779B97F4A7C15) ^ 0xD1B54A32D192ED03);
        if r.0 == 0 {
            r.0 = 0x2545F4914F6CDD1D;
        }
        for _ in 0..4 {
            r.next();
        }
        r
    }
    pub fn next(&mut self) -> u64 {
        let mut x = self.0;
        x ^= x >> 12;
        x ^= x << 25;
        x ^= x >> 27;
        self.0 = x;
        x.wrapping_mul(0x2545F4914F6CDD1D)
    }
    /// uniform in [0, n)
    pub fn below(&mut self, n: u64) -> u64 {
        if n == 0 { 0 } else { (self.next() >> 11) % n }
    }
    /// uniform in [lo, hi]
    pub fn range(&mut self, lo: i64, hi: i64) -> i64 {
        lo + self.below((hi - lo + 1) as u64) as i64
    }
    pub fn chance(&mut self, num: u64, den: u64) -> bool {
        self.below(den) < num
    }
    pub fn pick<'a, T>(&mut self, xs: &'a [T]) -> &'a T {
        &xs[self.below(xs.len() as u64) as usize]
    }
    pub fn fork(&mut self) -> Rng {
        Rng::new(self.next())
    }
}

//! Engine-level ops (C01–C05, C14): the real `search::propagate` and `search::search_*` driven on
//! props-level models, with brute-force oracles.
use crate::core::{rand_bool_dom, rand_dom, rand_kind, rand_view, KSpec, StoreCase, VSpec, ViewK};
use crate::out::{guarded, show_ints, Out};
use crate::rng::Rng;
use selen::constraints::props::Propagators;
use selen::search::agenda::Agenda;
use selen::search::mode::{Enumerate, Minimize};
use selen::search::{propagate, search_with_timeout_and_memory, Space};
use selen::variables::views::{View, ViewExt};
use selen::variables::{Val, Var, VarId, Vars};
use selen::verif_hooks as hooks;

pub struct EngCase {
    pub doms: Vec<Vec<i32>>,
    pub kinds: Vec<KSpec>,
}

pub fn build(doms: &[Vec<i32>], kinds: &[KSpec]) -> (Vars, Propagators, Vec<VarId>) {
    let mut vars = Vars::new();
    let mut props = Propagators::default();
    let mut ids = vec![];
    for d in doms {
        ids.push(vars.new_var_with_values(d.clone()));
        props.on_new_var();
    }
    for k in kinds {
        k.post(&mut props, &ids);
    }
    (vars, props, ids)
}

fn set_policy(seed: i64) {
    hooks::set_agenda_seed(if seed < 0 { None } else { Some(seed as u64) });
}

fn ival(v: Val) -> i64 {
    match v {
        Val::ValI(i) => i as i64,
        Val::ValF(f) => f as i64,
    }
}

/// all solutions of the conjunction by brute force
pub fn brute(doms: &[Vec<i32>], kinds: &[KSpec]) -> Vec<Vec<i64>> {
    let mut out = vec![];
    let mut a: Vec<i64> = vec![0; doms.len()];
    fn rec(doms: &[Vec<i32>], kinds: &[KSpec], k: usize, a: &mut Vec<i64>, out: &mut Vec<Vec<i64>>) {
        if k == doms.len() {
            if kinds.iter().all(|c| c.holds(a)) {
                out.push(a.clone());
            }
            return;
        }
        for v in &doms[k] {
            a[k] = *v as i64;
            rec(doms, kinds, k + 1, a, out);
        }
    }
    rec(doms, kinds, 0, &mut a, &mut out);
    out
}

fn case_tag(kinds: &[KSpec]) -> &'static str {
    kinds.iter().map(|k| k.finding_tag()).find(|t| *t != "-").unwrap_or("-")
}

fn show_sols(s: &[Vec<i64>]) -> String {
    let parts: Vec<String> = s.iter().map(|v| v.iter().map(|x| x.to_string()).collect::<Vec<_>>().join(",")).collect();
    format!("n={} sols={}", s.len(), parts.join(";"))
}

/// `fix <seed>`: root propagation with every propagator scheduled
pub fn do_fix(ec: &EngCase, out: &mut Out, seed: i64) {
    let r = guarded(|| {
        let (vars, props, ids) = build(&ec.doms, &ec.kinds);
        set_policy(seed);
        let agenda = Agenda::with_props(props.get_prop_ids_iter());
        let res = propagate(Space { vars, props, trail: selen::search::trail::Trail::new(), lp_solver_used: false, lp_constraint_count: 0, lp_variable_count: 0, lp_stats: None }, agenda);
        set_policy(-1);
        res.map(|(_, sp)| {
            ids.iter().map(|id| match &sp.vars[*id] { Var::VarI(s) => { let mut v = s.to_vec(); v.sort(); v } _ => vec![] }).collect::<Vec<_>>()
        })
    });
    let line = format!("fix {seed}");
    match r {
        None => { let l = out.emit(line, "panic"); out.fail(l, "C17", "-", "panic in propagate"); }
        Some(None) => {
            let l = out.emit(line, "fail");
            out.stat("fix.fail");
            let sols = brute(&ec.doms, &ec.kinds);
            if !sols.is_empty() {
                out.fail(l, "C05", case_tag(&ec.kinds), format!("fixpoint propagation failed although {:?} is a solution of {:?}", sols[0], ec.kinds.iter().map(|k| k.tokens()).collect::<Vec<_>>()));
            }
        }
        Some(Some(doms)) => {
            let l = out.emit(line, format!("ok {}", doms.iter().map(|d| show_ints(d)).collect::<Vec<_>>().join("|")));
            out.stat("fix.ok");
            let sols = brute(&ec.doms, &ec.kinds);
            for s in &sols {
                if let Some(i) = (0..doms.len()).find(|i| !doms[*i].contains(&(s[*i] as i32))) {
                    out.fail(l, "C05", case_tag(&ec.kinds), format!("fixpoint removed value {} of variable {i} although {:?} is a solution", s[i], s));
                    break;
                }
            }
            for i in 0..doms.len() {
                if !doms[i].iter().all(|v| ec.doms[i].contains(v)) {
                    out.fail(l, "C05", "-", format!("fixpoint grew the domain of variable {i}"));
                }
            }
            if doms.iter().all(|d| d.len() == 1) && sols.is_empty() {
                out.fail(l, "C05", case_tag(&ec.kinds), format!("fixpoint with all variables fixed to {:?} which violates a constraint", doms));
            }
        }
    }
}

/// `enum <seed>`
pub fn do_enum(ec: &EngCase, out: &mut Out, seed: i64) {
    let r = guarded(|| {
        let (vars, props, ids) = build(&ec.doms, &ec.kinds);
        set_policy(seed);
        hooks::set_root_lp_disabled(true);
        let it = search_with_timeout_and_memory(vars, props, Enumerate, None, None, vec![], 6);
        let sols: Vec<Vec<i64>> = it.take(5000).map(|s| ids.iter().map(|id| ival(s[*id])).collect()).collect();
        set_policy(-1);
        hooks::set_root_lp_disabled(false);
        sols
    });
    let line = format!("enum {seed}");
    let Some(sols) = r else {
        let l = out.emit(line, "panic");
        out.fail(l, "C17", "-", "panic in enumerate");
        set_policy(-1);
        return;
    };
    let l = out.emit(line, show_sols(&sols));
    out.stat("enum");
    out.stat_n("enum.solutions", sols.len() as u64);
    let want = brute(&ec.doms, &ec.kinds);
    let tag = case_tag(&ec.kinds);
    for s in &sols {
        if !want.contains(s) {
            out.fail(l, "C01", tag, format!("enumerate yielded {:?} which is not a solution of {:?} over {:?}", s, ec.kinds.iter().map(|k| k.tokens()).collect::<Vec<_>>(), ec.doms));
            out.fail(l, "C03", tag, format!("enumerate yielded the non-solution {:?}", s));
            break;
        }
    }
    let mut sorted = sols.clone();
    sorted.sort();
    let n0 = sorted.len();
    sorted.dedup();
    if sorted.len() != n0 {
        out.fail(l, "C03", "-", "enumerate yielded the same assignment twice".to_string());
    }
    for w in &want {
        if !sols.contains(w) {
            out.fail(l, "C03", tag, format!("enumerate missed the solution {:?} of {:?} over {:?}", w, ec.kinds.iter().map(|k| k.tokens()).collect::<Vec<_>>(), ec.doms));
            out.fail(l, "C02", tag, format!("search lost the solution {:?}", w));
            if seed >= 0 { out.fail(l, "C14", tag, format!("solution set under schedule {seed} lacks {:?}", w)); }
            break;
        }
    }
}

/// `opt min|max <seed> <view>`
pub fn do_opt(ec: &EngCase, out: &mut Out, is_max: bool, seed: i64, obj: &VSpec) {
    struct K { vars: Vars, props: Propagators, ids: Vec<VarId>, is_max: bool }
    impl ViewK for K {
        type Out = Vec<Vec<i64>>;
        fn call<V: View>(self, v: V) -> Self::Out {
            let ids = self.ids;
            if self.is_max {
                search_with_timeout_and_memory(self.vars, self.props, Minimize::new(v.opposite()), None, None, vec![], 6)
                    .take(5000).map(|s| ids.iter().map(|id| ival(s[*id])).collect()).collect()
            } else {
                search_with_timeout_and_memory(self.vars, self.props, Minimize::new(v), None, None, vec![], 6)
                    .take(5000).map(|s| ids.iter().map(|id| ival(s[*id])).collect()).collect()
            }
        }
    }
    let r = guarded(|| {
        let (vars, props, ids) = build(&ec.doms, &ec.kinds);
        set_policy(seed);
        hooks::set_root_lp_disabled(true);
        let ids2 = ids.clone();
        let sols = crate::core::with_view1(obj, &ids2, K { vars, props, ids, is_max });
        set_policy(-1);
        hooks::set_root_lp_disabled(false);
        sols
    });
    let line = format!("opt {} {seed} {}", if is_max { "max" } else { "min" }, obj.tokens());
    let Some(sols) = r else {
        let l = out.emit(line, "panic");
        out.fail(l, "C17", "-", "panic in minimize");
        set_policy(-1);
        return;
    };
    let l = out.emit(line, show_sols(&sols));
    out.stat("opt");
    let want = brute(&ec.doms, &ec.kinds);
    let tag = case_tag(&ec.kinds);
    let val = |s: &Vec<i64>| if is_max { -obj.apply(s) } else { obj.apply(s) };
    for s in &sols {
        if !want.contains(s) {
            out.fail(l, "C01", tag, format!("optimisation yielded {:?} which is not a solution", s));
            out.fail(l, "C04", tag, format!("optimisation yielded the non-solution {:?}", s));
            return;
        }
    }
    for w in sols.windows(2) {
        if val(&w[1]) >= val(&w[0]) {
            out.fail(l, "C04", "-", format!("objective did not strictly improve between {:?} and {:?}", w[0], w[1]));
        }
    }
    match (sols.last(), want.iter().map(|s| val(s)).min()) {
        (None, None) => {}
        (None, Some(_)) => out.fail(l, "C04", tag, format!("no result although the model is satisfiable ({:?})", want[0])),
        (Some(s), None) => out.fail(l, "C04", tag, format!("result {:?} for an unsatisfiable model", s)),
        (Some(s), Some(best)) => {
            if val(s) != best {
                out.fail(l, "C04", tag, format!("returned {:?} with objective {} but the optimum is {}", s, val(s), best));
            }
        }
    }
}

pub fn emit_model(out: &mut Out, ec: &EngCase) {
    let mut sc = StoreCase::new();
    for d in &ec.doms {
        sc.add_var(out, d);
    }
    for (i, k) in ec.kinds.iter().enumerate() {
        out.emit(format!("post {}", k.tokens()), format!("p{i}"));
        out.stat(&format!("post.{}", k.name()));
    }
}

pub fn rand_model(r: &mut Rng) -> EngCase {
    let n = r.range(2, 4) as usize;
    let (lo, hi) = if r.chance(1, 5) { (-6, 6) } else { (-3, 4) };
    let mut doms: Vec<Vec<i32>> = (0..n).map(|_| rand_dom(r, lo, hi)).collect();
    let nb = r.range(1, 2) as usize;
    let mut bools = vec![];
    for _ in 0..nb {
        doms.push(if r.chance(1, 5) { rand_bool_dom(r) } else { vec![0, 1] });
        bools.push(doms.len() - 1);
    }
    // keep the assignment space small enough to enumerate completely (no truncation anywhere)
    while doms.iter().map(|d| d.len() as u64).product::<u64>() > 2500 {
        let i = (0..doms.len()).max_by_key(|i| doms[*i].len()).unwrap();
        let k = r.below(doms[i].len() as u64) as usize;
        doms[i].remove(k);
    }
    let nk = r.range(1, 3) as usize;
    let kinds = (0..nk).map(|_| rand_kind(r, n, &bools)).collect();
    EngCase { doms, kinds }
}

pub fn suite(out: &mut Out, seed: u64, count: u64) {
    let mut r0 = Rng::new(seed ^ 0xE61E);
    for i in 0..count {
        let mut r = r0.fork();
        out.case(&format!("en{i}"));
        let ec = rand_model(&mut r);
        if out.samples.len() < 3 {
            out.samples.push(ec.kinds.iter().map(|k| k.tokens()).collect::<Vec<_>>().join(" ; "));
        }
        emit_model(out, &ec);
        do_fix(&ec, out, -1);
        do_enum(&ec, out, -1);
        // other schedules (C14)
        let s = r.range(0, 1000);
        do_fix(&ec, out, s);
        do_enum(&ec, out, s);
        let obj = rand_view(&mut r, ec.doms.len(), 1);
        do_opt(&ec, out, false, -1, &obj);
        do_opt(&ec, out, true, if r.chance(1, 2) { -1 } else { s }, &obj);
    }
}

pub fn replay_line(ec: &mut EngCase, out: &mut Out, line: &str) {
    let ws: Vec<&str> = line.split_whitespace().collect();
    match ws[0] {
        "st.var" => {
            let vals: Vec<i32> = ws[1..].iter().map(|w| w.parse().unwrap()).collect();
            ec.doms.push(vals);
        }
        "post" => {
            if let Some(k) = crate::core::parse_kind(&ws[1..]) {
                out.emit(line, format!("p{}", ec.kinds.len()));
                ec.kinds.push(k);
            }
        }
        "fix" => do_fix(ec, out, ws[1].parse().unwrap()),
        "enum" => do_enum(ec, out, ws[1].parse().unwrap()),
        "opt" => {
            let (v, _) = crate::core::parse_view(&ws[3..]).unwrap();
            do_opt(ec, out, ws[1] == "max", ws[2].parse().unwrap(), &v);
        }
        _ => {}
    }
}

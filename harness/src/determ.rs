//! suite `determ` (C16 — solving is deterministic).
//!
//! Every protocol line of this suite starts with `#det ` (oracle-only: there is no Lean-model
//! counterpart; `selen_model` answers `-` and `bin/check` does not compare such lines).
//!
//! A line is `#det <call> | <statements>`: the statements are a complete, parseable description of
//! a model built through the public API (int / intset / bool / float / unbounded variables,
//! fluent comparisons with and/or/not, integer / float / boolean / reified linear constraints,
//! alldiff / alleq / element / count / table / cardinality, result functions add … sum, boolean
//! functions, reified comparisons, conversions); the call is one of `validate`, `registry`, `lp`,
//! `solve`, `enum N`, `min v`, `max v`, `miniter v N`, `maxiter v N`.  The result line is the
//! *complete* observable outcome: verdict, error text (Display and Debug), the value of every
//! solver variable (hidden auxiliaries included; floats as `f64::to_bits`), the whole yielded
//! sequence, the non-timing statistics (propagations, nodes, LP iterations …), which path answered
//! (root LP / fast path), all registry queries and metadata, `Model::validate()` text, the
//! extracted linear system and the LP it is converted to.
//!
//! Families (`family.*` in the stats): `csp` random integer models; `alldiff-invalid` ≥ 2
//! AllDifferent constraints that fail validation (the SAME first error must be reported);
//! `lp` float/mixed models with several `m.add(var,var)`, `x <= y`, float linear rows and an
//! objective, so that the root LP step runs; `unbounded` declarations that need bound inference
//! (incl. the deferred `x == c`); `bigdom` AllDifferent over domains wider than 128 values (the
//! SparseSet half of `HybridGAC` and the cross propagation); `mixed` conversions, reification,
//! booleans.  Most constraints are chosen to hold under a random witness assignment, so most
//! models are satisfiable.
//!
//! Oracle (within one process): the model is built and the call is run TWICE, concurrently on two
//! freshly spawned threads (std's `RandomState` draws new SipHash keys per thread and bumps them
//! per map, so the two runs iterate every `HashMap`/`HashSet` differently), and the two result
//! lines must be identical; a mismatch is `out.fail(line, "C16", "-", …)`.  Runs are cut by a
//! deterministic work budget (hook H6: the `--budget`-th engine limit check reports the timeout),
//! so cut runs stay comparable (`err Timeout`); a `--wall` ms watchdog abandons runs whose
//! uninterruptible propagation takes too long: those lines read `time-limit` and are excluded
//! ("as long as no time limit interferes").
//! Across processes: `tools/determ_cross.sh` runs the suite in N processes with the same seed and
//! compares the `.impl` files byte for byte.  Cases run on `--jobs` worker threads (default 4);
//! the transcript does not depend on the scheduling.
//!
//! `--probe R` instead exercises the hash-ordered *public helper structs* that `solve` never
//! reaches (`SparseSetGAC`, `BitSetGAC`, `HybridGAC`, `create_precision_propagators`), each R times
//! on fresh structures, and prints the sorted set of distinct outcomes; more than one outcome is a
//! tagged finding (`gac-sparseset-hash-order`, `precision-propagators-hash-order`).  With `R = 1`
//! the single outcome is printed, so that `determ_cross.sh … probe` shows it differing across
//! processes.
//!
//! `--replay-ops FILE` re-runs the `#det` lines of a transcript verbatim.
use crate::out::{guarded, Out};
use crate::rng::Rng;
use selen::prelude as sp;
use selen::prelude::{Constraint, ExprBuilder, Model, ModelExt, Solution, SolverError, Val, VarId};
use selen::optimization::constraint_metadata::{ConstraintData, ConstraintId, ConstraintRegistry, ConstraintType};
use std::fmt::Write as _;

const STREAM: u64 = 0xDE7E_0016_C0FF_EE16;
/// engine iterations after which a run is cut (`--budget K`, 0 = no cut, only the 20 s wall clock)
static BUDGET: std::sync::atomic::AtomicUsize = std::sync::atomic::AtomicUsize::new(600);
/// wall-clock watchdog per call in ms (`--wall MS`)
static WALL_MS: std::sync::atomic::AtomicUsize = std::sync::atomic::AtomicUsize::new(5000);

// ------------------------------------------------------------------------------------------------
// description language
// ------------------------------------------------------------------------------------------------
#[derive(Clone, Debug, PartialEq)]
pub enum E {
    V(usize),
    I(i32),
    F(f64),
    B(u8, Box<E>, Box<E>),
}

impl E {
    fn show(&self, s: &mut String) {
        match self {
            E::V(i) => { let _ = write!(s, "v{i}"); }
            E::I(i) => { let _ = write!(s, "i{i}"); }
            E::F(f) => { let _ = write!(s, "f{f:?}"); }
            E::B(op, a, b) => {
                s.push(*op as char);
                s.push('(');
                a.show(s);
                s.push(',');
                b.show(s);
                s.push(')');
            }
        }
    }
    fn parse(b: &[u8], p: &mut usize) -> Option<E> {
        let c = *b.get(*p)?;
        *p += 1;
        match c {
            b'v' | b'i' | b'f' => {
                let st = *p;
                while *p < b.len() && b[*p] != b',' && b[*p] != b')' {
                    *p += 1;
                }
                let t = std::str::from_utf8(&b[st..*p]).ok()?;
                Some(match c {
                    b'v' => E::V(t.parse().ok()?),
                    b'i' => E::I(t.parse().ok()?),
                    _ => E::F(t.parse().ok()?),
                })
            }
            b'+' | b'-' | b'*' | b'/' | b'%' => {
                if *b.get(*p)? != b'(' { return None; }
                *p += 1;
                let x = E::parse(b, p)?;
                if *b.get(*p)? != b',' { return None; }
                *p += 1;
                let y = E::parse(b, p)?;
                if *b.get(*p)? != b')' { return None; }
                *p += 1;
                Some(E::B(c, Box::new(x), Box::new(y)))
            }
            _ => None,
        }
    }
}

#[derive(Clone, Debug, PartialEq)]
pub enum A {
    N(i64),
    F(f64),
    L(Vec<i64>),
    G(Vec<f64>),
    T(Vec<Vec<i64>>),
    X(E),
}

fn join<T>(v: &[T], sep: &str, f: impl Fn(&T) -> String) -> String {
    v.iter().map(f).collect::<Vec<_>>().join(sep)
}

impl A {
    fn show(&self) -> String {
        match self {
            A::N(n) => format!("n{n}"),
            A::F(f) => format!("f{f:?}"),
            A::L(l) => format!("l{}", join(l, ",", |x| x.to_string())),
            A::G(l) => format!("g{}", join(l, ",", |x| format!("{x:?}"))),
            A::T(t) => format!("t{}", join(t, "/", |r| join(r, ",", |x| x.to_string()))),
            A::X(e) => {
                let mut s = String::from("x");
                e.show(&mut s);
                s
            }
        }
    }
    fn parse(w: &str) -> Option<A> {
        let (c, t) = (w.as_bytes().first().copied()?, &w[1..]);
        fn list<T: std::str::FromStr>(t: &str) -> Option<Vec<T>> {
            if t.is_empty() { return Some(vec![]); }
            t.split(',').map(|x| x.parse().ok()).collect()
        }
        Some(match c {
            b'n' => A::N(t.parse().ok()?),
            b'f' => A::F(t.parse().ok()?),
            b'l' => A::L(list(t)?),
            b'g' => A::G(list(t)?),
            b't' => A::T(if t.is_empty() { vec![] } else { t.split('/').map(list).collect::<Option<_>>()? }),
            b'x' => {
                let mut p = 0;
                let e = E::parse(t.as_bytes(), &mut p)?;
                if p != t.len() { return None; }
                A::X(e)
            }
            _ => return None,
        })
    }
}

#[derive(Clone, Debug, PartialEq)]
pub struct St {
    op: String,
    a: Vec<A>,
}

fn st(op: &str, a: Vec<A>) -> St {
    St { op: op.to_string(), a }
}

fn show_model(s: &[St]) -> String {
    join(s, " ; ", |x| {
        let mut t = x.op.clone();
        for a in &x.a {
            t.push(' ');
            t.push_str(&a.show());
        }
        t
    })
}

fn parse_model(t: &str) -> Option<Vec<St>> {
    let mut v = vec![];
    for part in t.split(" ; ") {
        let mut ws = part.split_whitespace();
        let Some(op) = ws.next() else { continue };
        let a: Option<Vec<A>> = ws.map(A::parse).collect();
        v.push(St { op: op.to_string(), a: a? });
    }
    Some(v)
}

#[derive(Clone, Debug, PartialEq)]
pub enum Call {
    Validate,
    Registry,
    Lp,
    Solve,
    Enum(usize),
    Min(usize),
    Max(usize),
    MinIter(usize, usize),
    MaxIter(usize, usize),
}

impl Call {
    fn show(&self) -> String {
        match self {
            Call::Validate => "validate".into(),
            Call::Registry => "registry".into(),
            Call::Lp => "lp".into(),
            Call::Solve => "solve".into(),
            Call::Enum(n) => format!("enum {n}"),
            Call::Min(v) => format!("min {v}"),
            Call::Max(v) => format!("max {v}"),
            Call::MinIter(v, n) => format!("miniter {v} {n}"),
            Call::MaxIter(v, n) => format!("maxiter {v} {n}"),
        }
    }
    fn parse(t: &str) -> Option<Call> {
        let w: Vec<&str> = t.split_whitespace().collect();
        let n = |i: usize| -> Option<usize> { w.get(i)?.parse().ok() };
        Some(match *w.first()? {
            "validate" => Call::Validate,
            "registry" => Call::Registry,
            "lp" => Call::Lp,
            "solve" => Call::Solve,
            "enum" => Call::Enum(n(1)?),
            "min" => Call::Min(n(1)?),
            "max" => Call::Max(n(1)?),
            "miniter" => Call::MinIter(n(1)?, n(2)?),
            "maxiter" => Call::MaxIter(n(1)?, n(2)?),
            _ => return None,
        })
    }
    fn stat(&self) -> &'static str {
        match self {
            Call::Validate => "call.validate",
            Call::Registry => "call.registry",
            Call::Lp => "call.lp",
            Call::Solve => "call.solve",
            Call::Enum(_) => "call.enumerate",
            Call::Min(_) => "call.minimize",
            Call::Max(_) => "call.maximize",
            Call::MinIter(..) => "call.minimize_and_iterate",
            Call::MaxIter(..) => "call.maximize_and_iterate",
        }
    }
}

// ------------------------------------------------------------------------------------------------
// building the real model
// ------------------------------------------------------------------------------------------------
fn new_model() -> Model {
    // generous limit: a case that runs into it is reported as `timeout` and not compared
    Model::with_config(sp::config::SolverConfig::default().with_timeout_ms(20000))
}

fn bex(e: &E, v: &[VarId]) -> Result<ExprBuilder, String> {
    Ok(match e {
        E::V(i) => ExprBuilder::from(*v.get(*i).ok_or("bad var")?),
        E::I(c) => ExprBuilder::from(*c),
        E::F(c) => ExprBuilder::from(*c),
        E::B(op, a, b) => {
            let (x, y) = (bex(a, v)?, bex(b, v)?);
            match op {
                b'+' => x.add(y),
                b'-' => x.sub(y),
                b'*' => x.mul(y),
                b'/' => x.div(y),
                _ => x.modulo(y),
            }
        }
    })
}

fn cmp_of(op: i64, l: ExprBuilder, r: ExprBuilder) -> Constraint {
    match op {
        0 => l.eq(r),
        1 => l.ne(r),
        2 => l.lt(r),
        3 => l.le(r),
        4 => l.gt(r),
        _ => l.ge(r),
    }
}

struct Args<'a> {
    a: &'a [A],
    v: &'a [VarId],
}

impl<'a> Args<'a> {
    fn n(&self, i: usize) -> Result<i64, String> {
        match self.a.get(i) { Some(A::N(n)) => Ok(*n), _ => Err(format!("arg {i}: n expected")) }
    }
    fn i(&self, i: usize) -> Result<i32, String> {
        i32::try_from(self.n(i)?).map_err(|_| "i32 expected".to_string())
    }
    fn f(&self, i: usize) -> Result<f64, String> {
        match self.a.get(i) { Some(A::F(n)) => Ok(*n), _ => Err(format!("arg {i}: f expected")) }
    }
    fn l(&self, i: usize) -> Result<&'a [i64], String> {
        match self.a.get(i) { Some(A::L(n)) => Ok(n), _ => Err(format!("arg {i}: l expected")) }
    }
    fn li(&self, i: usize) -> Result<Vec<i32>, String> {
        self.l(i)?.iter().map(|x| i32::try_from(*x).map_err(|_| "i32 expected".to_string())).collect()
    }
    fn g(&self, i: usize) -> Result<&'a [f64], String> {
        match self.a.get(i) { Some(A::G(n)) => Ok(n), _ => Err(format!("arg {i}: g expected")) }
    }
    fn t(&self, i: usize) -> Result<&'a [Vec<i64>], String> {
        match self.a.get(i) { Some(A::T(n)) => Ok(n), _ => Err(format!("arg {i}: t expected")) }
    }
    fn x(&self, i: usize) -> Result<ExprBuilder, String> {
        match self.a.get(i) { Some(A::X(e)) => bex(e, self.v), _ => Err(format!("arg {i}: x expected")) }
    }
    fn var(&self, i: usize) -> Result<VarId, String> {
        let k = self.n(i)?;
        self.v.get(k as usize).copied().ok_or_else(|| format!("arg {i}: no variable {k}"))
    }
    fn vars(&self, i: usize) -> Result<Vec<VarId>, String> {
        self.l(i)?.iter().map(|k| self.v.get(*k as usize).copied().ok_or_else(|| format!("no variable {k}"))).collect()
    }
}

/// apply one statement; result variables are appended to `v`
fn apply(m: &mut Model, v: &mut Vec<VarId>, s: &St) -> Result<(), String> {
    let vs = v.clone();
    let a = Args { a: &s.a, v: &vs };
    let mut push = |x: VarId| v.push(x);
    match s.op.as_str() {
        "int" => push(m.int(a.i(0)?, a.i(1)?)),
        "uint" => push(m.int(i32::MIN, i32::MAX)),
        "intlo" => push(m.int(a.i(0)?, i32::MAX)),
        "inthi" => push(m.int(i32::MIN, a.i(0)?)),
        "set" => push(m.intset(a.li(0)?)),
        "bool" => push(m.bool()),
        "float" => push(m.float(a.f(0)?, a.f(1)?)),
        "ufloat" => push(m.float(f64::NEG_INFINITY, f64::INFINITY)),
        "cmp" => { m.new(cmp_of(a.n(0)?, a.x(1)?, a.x(2)?)); }
        "and" => { m.new(cmp_of(a.n(0)?, a.x(1)?, a.x(2)?).and(cmp_of(a.n(3)?, a.x(4)?, a.x(5)?))); }
        "or" => { m.new(cmp_of(a.n(0)?, a.x(1)?, a.x(2)?).or(cmp_of(a.n(3)?, a.x(4)?, a.x(5)?))); }
        "not" => { m.new(cmp_of(a.n(0)?, a.x(1)?, a.x(2)?).not()); }
        "lin" => {
            let (cs, xs, k) = (a.li(1)?, a.vars(2)?, a.i(3)?);
            match a.n(0)? { 0 => m.lin_eq(&cs, &xs, k), 1 => m.lin_le(&cs, &xs, k), _ => m.lin_ne(&cs, &xs, k) }
        }
        "flin" => {
            let (cs, xs, k) = (a.g(1)?, a.vars(2)?, a.f(3)?);
            match a.n(0)? { 0 => m.lin_eq(cs, &xs, k), 1 => m.lin_le(cs, &xs, k), _ => m.lin_ne(cs, &xs, k) }
        }
        "linr" => {
            let (cs, xs, k, b) = (a.li(1)?, a.vars(2)?, a.i(3)?, a.var(4)?);
            match a.n(0)? { 0 => m.lin_eq_reif(&cs, &xs, k, b), 1 => m.lin_le_reif(&cs, &xs, k, b), _ => m.lin_ne_reif(&cs, &xs, k, b) }
        }
        "blin" => {
            let (cs, xs, k) = (a.li(1)?, a.vars(2)?, a.i(3)?);
            match a.n(0)? { 0 => m.bool_lin_eq(&cs, &xs, k), 1 => m.bool_lin_le(&cs, &xs, k), _ => m.bool_lin_ne(&cs, &xs, k) }
        }
        "alldiff" => { Model::alldiff(m, &a.vars(0)?); }
        "alleq" => { Model::alleq(m, &a.vars(0)?); }
        "elem" => { m.element(&a.vars(0)?, a.var(1)?, a.var(2)?); }
        "count" => { Model::count(m, &a.vars(0)?, sp::int(a.i(1)?), a.var(2)?); }
        "table" => {
            let rows: Vec<Vec<Val>> = a.t(1)?.iter().map(|r| r.iter().map(|x| sp::int(*x as i32)).collect()).collect();
            m.table(&a.vars(0)?, rows);
        }
        "card" => {
            let (xs, val, n) = (a.vars(1)?, a.i(2)?, a.i(3)?);
            match a.n(0)? { 0 => m.at_least(&xs, val, n), 1 => m.at_most(&xs, val, n), _ => m.exactly(&xs, val, n) };
        }
        "add" => push(m.add(a.var(0)?, a.var(1)?)),
        "sub" => push(m.sub(a.var(0)?, a.var(1)?)),
        "mul" => push(m.mul(a.var(0)?, a.var(1)?)),
        "div" => push(m.div(a.var(0)?, a.var(1)?)),
        "mod" => push(m.modulo(a.var(0)?, a.var(1)?)),
        "addk" => push(m.add(a.var(0)?, sp::int(a.i(1)?))),
        "mulk" => push(m.mul(a.var(0)?, sp::int(a.i(1)?))),
        "faddk" => push(m.add(a.var(0)?, sp::float(a.f(1)?))),
        "fmulk" => push(m.mul(a.var(0)?, sp::float(a.f(1)?))),
        "abs" => push(m.abs(a.var(0)?)),
        "min" => push(m.min(&a.vars(0)?).map_err(|e| format!("min: {e}"))?),
        "max" => push(m.max(&a.vars(0)?).map_err(|e| format!("max: {e}"))?),
        "sum" => push(m.sum(&a.vars(0)?)),
        "band" => push(m.bool_and(&a.vars(0)?)),
        "bor" => push(m.bool_or(&a.vars(0)?)),
        "bnot" => push(m.bool_not(a.var(0)?)),
        "bxor" => push(m.bool_xor(a.var(0)?, a.var(1)?)),
        "reif" => {
            let (x, y, b) = (a.var(1)?, a.var(2)?, a.var(3)?);
            match a.n(0)? {
                0 => m.eq_reif(x, y, b),
                1 => m.ne_reif(x, y, b),
                2 => m.lt_reif(x, y, b),
                3 => m.le_reif(x, y, b),
                4 => m.gt_reif(x, y, b),
                _ => m.ge_reif(x, y, b),
            }
        }
        "implies" => m.implies(a.var(0)?, a.var(1)?),
        "clause" => m.bool_clause(&a.vars(0)?, &a.vars(1)?),
        "i2f" => m.int2float(a.var(0)?, a.var(1)?),
        "floor" => m.float2int_floor(a.var(0)?, a.var(1)?),
        "ceil" => m.float2int_ceil(a.var(0)?, a.var(1)?),
        "round" => m.float2int_round(a.var(0)?, a.var(1)?),
        o => return Err(format!("unknown statement {o}")),
    }
    Ok(())
}

fn build(stmts: &[St]) -> Result<(Model, Vec<VarId>), String> {
    let mut m = new_model();
    let mut v = vec![];
    for s in stmts {
        apply(&mut m, &mut v, s)?;
    }
    Ok((m, v))
}

// ------------------------------------------------------------------------------------------------
// rendering
// ------------------------------------------------------------------------------------------------
fn clean(s: &str) -> String {
    s.replace('\n', "\\n").replace('\t', " ")
}

fn show_val(s: &mut String, v: Val) {
    match v {
        Val::ValI(i) => { let _ = write!(s, "i{i}"); }
        Val::ValF(f) => { let _ = write!(s, "f{}", f.to_bits()); }
    }
}

fn bits(v: &[f64]) -> String {
    join(v, ",", |x| x.to_bits().to_string())
}

/// VarIds are plain indices: handles of a scratch model read every variable of any solution
static SCRATCH_IDS: std::sync::OnceLock<Vec<VarId>> = std::sync::OnceLock::new();

struct Scratch;
static SCRATCH: Scratch = Scratch;

impl Scratch {
    fn with<R>(&self, f: impl FnOnce(&Vec<VarId>) -> R) -> R {
        f(SCRATCH_IDS.get_or_init(|| {
            let mut m = Model::default();
            m.ints(400, 0, 0)
        }))
    }
}

fn show_solution(s: &mut String, sol: &Solution) {
    s.push('[');
    SCRATCH.with(|sc| {
        for (k, id) in sc.iter().enumerate() {
            let Some(v) = guarded(|| sol[*id]) else { break };
            if k > 0 { s.push(','); }
            show_val(s, v);
        }
    });
    s.push(']');
    let t = &sol.stats;
    let _ = write!(
        s,
        " p={} n={} mem={} vars={}/{}/{}/{}/{} cons={} props={} obj={}/{} lp={}/{}/{}",
        t.propagation_count, t.node_count, t.peak_memory_mb, t.variables, t.int_variables, t.bool_variables,
        t.float_variables, t.set_variables, t.constraint_count, t.propagators, t.objective.to_bits(),
        t.objective_bound.to_bits(), t.lp_solver_used as u8, t.lp_constraint_count, t.lp_variable_count
    );
    if let Some(l) = &t.lp_stats {
        let _ = write!(s, " lpit={}/{}/{}/{}/{}/{}/{}", l.phase1_iterations, l.phase2_iterations, l.peak_memory_mb.to_bits(),
            l.n_variables, l.n_constraints, l.factorizations, l.phase1_needed as u8);
    }
}

/// `None` = a time limit interfered (not comparable, see the property statement)
fn show_err(e: &SolverError) -> Option<String> {
    if matches!(e, SolverError::Timeout { .. }) {
        // the message carries the elapsed wall-clock time: only the verdict is comparable
        return Some("err Timeout".into());
    }
    Some(format!("err {} || {}", clean(&e.to_string()), clean(&format!("{e:?}"))))
}

const TYPES: &[(&str, fn() -> ConstraintType)] = {
    use ConstraintType as T;
    &[
        ("LessThanOrEquals", || T::LessThanOrEquals), ("LessThan", || T::LessThan), ("GreaterThanOrEquals", || T::GreaterThanOrEquals),
        ("GreaterThan", || T::GreaterThan), ("Equals", || T::Equals), ("NotEquals", || T::NotEquals),
        ("AllDifferent", || T::AllDifferent), ("AllEqual", || T::AllEqual), ("Element", || T::Element), ("Sum", || T::Sum),
        ("Addition", || T::Addition), ("Multiplication", || T::Multiplication), ("Modulo", || T::Modulo), ("Division", || T::Division),
        ("AbsoluteValue", || T::AbsoluteValue), ("Minimum", || T::Minimum), ("Maximum", || T::Maximum),
        ("BooleanAnd", || T::BooleanAnd), ("BooleanOr", || T::BooleanOr), ("BooleanNot", || T::BooleanNot), ("BooleanXor", || T::BooleanXor),
        ("EqualityReified", || T::EqualityReified), ("InequalityReified", || T::InequalityReified), ("LessThanReified", || T::LessThanReified),
        ("LessEqualReified", || T::LessEqualReified), ("GreaterThanReified", || T::GreaterThanReified), ("GreaterEqualReified", || T::GreaterEqualReified),
        ("Count", || T::Count), ("Table", || T::Table), ("Between", || T::Between), ("AtLeast", || T::AtLeast), ("AtMost", || T::AtMost),
        ("Exactly", || T::Exactly), ("IfThenElse", || T::IfThenElse),
    ]
};

fn ids(v: &[ConstraintId]) -> String {
    join(v, ",", |x| x.0.to_string())
}

fn show_registry(m: &Model, nvars: usize) -> String {
    let r = m.get_constraint_registry();
    let mut s = String::new();
    let all = r.get_all_constraint_ids();
    let _ = write!(s, "n={} all=[{}]", r.constraint_count(), ids(&all));
    for (name, mk) in TYPES {
        let l = r.get_constraints_by_type(&mk());
        if !l.is_empty() {
            let _ = write!(s, " {name}=[{}]", ids(&l));
        }
    }
    // `Complex` types carry data: query each distinct one that occurs
    let mut seen: Vec<ConstraintType> = vec![];
    for id in &all {
        if let Some(md) = r.get_constraint(*id) {
            if matches!(md.constraint_type, ConstraintType::Complex { .. }) && !seen.contains(&md.constraint_type) {
                seen.push(md.constraint_type.clone());
                let _ = write!(s, " {:?}=[{}]", md.constraint_type, ids(&r.get_constraints_by_type(&md.constraint_type)));
            }
        }
    }
    SCRATCH.with(|sc| {
        for (k, id) in sc.iter().enumerate().take(nvars) {
            let l = r.get_constraints_for_variable(*id);
            let an = r.analyze_variable_constraints(*id);
            let _ = write!(
                s,
                " v{k}:[{}] ub[{}] lb[{}] sub[{}] slb[{}] eq[{}] cx{} simple{} eub{} elb{}",
                ids(&l), bits(&an.upper_bounds), bits(&an.lower_bounds), bits(&an.strict_upper_bounds), bits(&an.strict_lower_bounds),
                bits(&an.equality_values), an.has_complex_constraints as u8, an.is_simple_pattern() as u8,
                an.get_effective_upper_bound(1e-6).map_or("-".to_string(), |x| x.to_bits().to_string()),
                an.get_effective_lower_bound(1e-6).map_or("-".to_string(), |x| x.to_bits().to_string())
            );
        }
    });
    for id in &all {
        if let Some(md) = r.get_constraint(*id) {
            let _ = write!(s, " #{}={}", id.0, clean(&format!("{md:?}")));
        }
    }
    s
}

fn show_lp(m: &Model) -> String {
    let sys = m.extract_linear_system();
    let mut s = String::new();
    let _ = write!(s, "sysvars=[{}] suitable={}", join(&sys.variables, ",", |v| format!("{v:?}")), sys.is_suitable_for_lp(m.get_vars()) as u8);
    for c in &sys.constraints {
        let _ = write!(s, " {{[{}]*[{}] {:?} {}}}", bits(&c.coefficients), join(&c.variables, ",", |v| format!("{v:?}")), c.relation, c.rhs.to_bits());
    }
    match guarded(|| sys.to_lp_problem(m.get_vars())) {
        None => s.push_str(" lp=panic"),
        Some(p) => {
            let _ = write!(s, " lp: n={} m={} c=[{}] b=[{}] lo=[{}] hi=[{}] A=[{}]", p.n_vars, p.n_constraints, bits(&p.c), bits(&p.b),
                bits(&p.lower_bounds), bits(&p.upper_bounds), join(&p.a, ";", |r| bits(r)));
        }
    }
    s
}

fn show_many(it: impl Iterator<Item = Solution>, cap: usize) -> String {
    let mut s = String::new();
    let mut n = 0;
    for sol in it.take(cap) {
        if n > 0 { s.push_str(" ; "); }
        show_solution(&mut s, &sol);
        n += 1;
    }
    format!("seq n={n}{} {s}", if n == cap { " (cap)" } else { "" })
}

/// build the model and run the call: the complete observable outcome as one line
/// (`None` = a time limit interfered)
fn run(stmts: &[St], call: &Call) -> Option<String> {
    let t0 = std::time::Instant::now();
    // deterministic work budget instead of a wall clock (hook H6, thread-local): the BUDGET-th
    // limit check of the search engine finds the timeout exceeded, so a run that is cut is cut at
    // the same point in every process and stays comparable
    let budget = BUDGET.load(std::sync::atomic::Ordering::Relaxed);
    selen::verif_hooks::set_fire_at(if budget == 0 { None } else { Some((budget, 0)) });
    selen::verif_hooks::take_path_flags();
    let r = guarded(|| -> Option<String> {
        let (m, v) = match build(stmts) {
            Ok(x) => x,
            Err(e) => return Some(format!("builderr {}", clean(&e))),
        };
        let var = |i: usize| v.get(i).copied();
        let one = |r: Result<Solution, SolverError>| -> Option<String> {
            match r {
                Ok(sol) => {
                    let mut s = String::from("ok ");
                    show_solution(&mut s, &sol);
                    Some(s)
                }
                Err(e) => show_err(&e),
            }
        };
        match call {
            Call::Validate => Some(match m.validate() { Ok(()) => "valid".into(), Err(e) => format!("invalid {}", clean(&e)) }),
            Call::Registry => Some(show_registry(&m, v.len())),
            Call::Lp => Some(show_lp(&m)),
            Call::Solve => one(m.solve()),
            Call::Enum(n) => Some(show_many(m.enumerate(), *n)),
            Call::Min(x) => one(m.minimize(var(*x)?)),
            Call::Max(x) => one(m.maximize(var(*x)?)),
            Call::MinIter(x, n) => Some(show_many(m.minimize_and_iterate(var(*x)?), *n)),
            Call::MaxIter(x, n) => Some(show_many(m.maximize_and_iterate(var(*x)?), *n)),
        }
    });
    // which path answered (thread-local notes of hook H4): root LP applied / optimisation fast path
    let (lp, fp) = selen::verif_hooks::take_path_flags();
    let r = r.map(|x| x.map(|t| if matches!(call, Call::Validate | Call::Registry | Call::Lp) { t } else { format!("{t} path=lp{}/fp{}", lp as u8, fp as u8) }));
    match r {
        None => Some("panic".into()),
        // the iterating entry points swallow a timeout: treat a run that came near the limit as cut
        Some(x) => if t0.elapsed().as_millis() >= 15000 { None } else { x },
    }
}

/// start `run` on a fresh thread (fresh `RandomState` keys, fresh thread-locals)
fn spawn_run(stmts: &[St], call: &Call) -> std::sync::mpsc::Receiver<Option<String>> {
    let (s, c) = (stmts.to_vec(), call.clone());
    let (tx, rx) = std::sync::mpsc::channel();
    let _ = std::thread::Builder::new().stack_size(64 << 20).spawn(move || {
        let _ = tx.send(run(&s, &c));
    });
    rx
}

/// the two runs, concurrently on two fresh threads, under a wall-clock watchdog: some float
/// models make the (uninterruptible) root propagation converge in 1e-6 steps for a minute; such a
/// run is abandoned (`None` = a time limit interfered) and its thread left to die with the process
fn run_twice(stmts: &[St], call: &Call) -> (Option<String>, Option<String>) {
    let wall = std::time::Duration::from_millis(WALL_MS.load(std::sync::atomic::Ordering::Relaxed) as u64);
    let t0 = std::time::Instant::now();
    let (a, b) = (spawn_run(stmts, call), spawn_run(stmts, call));
    let ra = a.recv_timeout(wall).ok().flatten();
    let rb = b.recv_timeout(wall.saturating_sub(t0.elapsed())).ok().flatten();
    (ra, rb)
}

fn first_diff(a: &str, b: &str) -> String {
    let p = a.bytes().zip(b.bytes()).take_while(|(x, y)| x == y).count();
    let lo = p.saturating_sub(30);
    let cut = |s: &str| -> String { s.chars().skip(lo).take(90).collect() };
    format!("at byte {p}: first run `…{}` vs second run `…{}`", cut(a), cut(b))
}

/// returns true when the watchdog abandoned the run
fn do_call(out: &mut Out, stmts: &[St], call: &Call) -> bool {
    let t0 = std::time::Instant::now();
    let (r1, r2) = run_twice(stmts, call);
    out.stat(call.stat());
    if std::env::var("DET_TIMES").is_ok() {
        eprintln!("{:>6} ms  {} | {}", t0.elapsed().as_millis(), call.show(), show_model(stmts));
    }
    let op = format!("#det {} | {}", call.show(), show_model(stmts));
    // the line must be a complete description: it has to parse back to the same model and call
    let back = op.strip_prefix("#det ").and_then(|t| t.split_once(" | ")).and_then(|(c, m)| Some((Call::parse(c)?, parse_model(m)?)));
    let roundtrip = back.is_some_and(|(c, m)| c == *call && m == stmts);
    match (r1, r2) {
        (Some(a), Some(b)) => {
            let head = match call {
                Call::Registry => "registry",
                Call::Lp => "lp",
                _ => a.split_whitespace().next().unwrap_or(""),
            };
            out.stat(&format!("outcome.{head}"));
            if a.starts_with("err ") {
                let name = a[4..].split(|c: char| !c.is_alphanumeric()).next().unwrap_or("");
                out.stat(&format!("error.{}", a.split("||").nth(1).and_then(|d| d.trim().split(|c: char| !c.is_alphanumeric()).next()).unwrap_or(name)));
            }
            let line = out.emit(op, a.clone());
            if a != b {
                out.fail(line, "C16", "-", first_diff(&a, &b));
            }
            if !roundtrip {
                out.fail(line, "C16", "-", "harness: the protocol line does not parse back to the model that was run");
            }
        }
        _ => {
            out.stat("outcome.time-limit");
            out.emit(op, "time-limit");
            return true;
        }
    }
    false
}

// ------------------------------------------------------------------------------------------------
// generators
// ------------------------------------------------------------------------------------------------
#[derive(Clone, Copy, PartialEq, Debug)]
enum K {
    I,
    B,
    F,
}

struct G<'a> {
    r: &'a mut Rng,
    s: Vec<St>,
    k: Vec<K>,
    /// rough integer hull of every variable (keeps products small)
    h: Vec<(i64, i64)>,
    /// a witness assignment: most generated constraints are chosen to hold under it, so that most
    /// models are satisfiable (in the documented semantics; the code's known defects may disagree)
    w: Vec<f64>,
}

fn n(x: impl TryInto<i64>) -> A {
    A::N(x.try_into().ok().unwrap())
}

fn l(v: &[usize]) -> A {
    A::L(v.iter().map(|x| *x as i64).collect())
}

impl<'a> G<'a> {
    fn new(r: &'a mut Rng) -> Self {
        G { r, s: vec![], k: vec![], h: vec![], w: vec![] }
    }
    fn decl(&mut self, s: St, k: K, h: (i64, i64)) -> usize {
        let w = self.witness_for(&s);
        self.s.push(s);
        self.k.push(k);
        self.h.push(h);
        self.w.push(w);
        self.k.len() - 1
    }
    fn witness_for(&mut self, s: &St) -> f64 {
        let num = |i: usize| -> f64 { match s.a.get(i) { Some(A::N(x)) => *x as f64, Some(A::F(x)) => *x, _ => 0.0 } };
        let wv = |g: &Self, i: usize| -> f64 { g.w.get(num(i) as usize).copied().unwrap_or(0.0) };
        let wl = |g: &Self, i: usize| -> Vec<f64> {
            match s.a.get(i) { Some(A::L(l)) => l.iter().map(|x| g.w.get(*x as usize).copied().unwrap_or(0.0)).collect(), _ => vec![] }
        };
        match s.op.as_str() {
            "int" => self.r.range(num(0) as i64, num(1) as i64) as f64,
            "set" => match s.a.first() { Some(A::L(l)) if !l.is_empty() => l[self.r.below(l.len() as u64) as usize] as f64, _ => 0.0 },
            "bool" => self.r.below(2) as f64,
            "float" => {
                let steps = ((num(1) - num(0)) * 2.0).floor() as i64;
                num(0) + self.r.range(0, steps.max(0)) as f64 / 2.0
            }
            "add" => wv(self, 0) + wv(self, 1),
            "sub" => wv(self, 0) - wv(self, 1),
            "mul" => wv(self, 0) * wv(self, 1),
            "addk" | "faddk" => wv(self, 0) + num(1),
            "mulk" | "fmulk" => wv(self, 0) * num(1),
            "abs" => wv(self, 0).abs(),
            "min" => wl(self, 0).into_iter().fold(f64::INFINITY, f64::min),
            "max" => wl(self, 0).into_iter().fold(f64::NEG_INFINITY, f64::max),
            "sum" => wl(self, 0).into_iter().sum(),
            "band" => wl(self, 0).into_iter().all(|x| x != 0.0) as u8 as f64,
            "bor" => wl(self, 0).into_iter().any(|x| x != 0.0) as u8 as f64,
            "bnot" => (wv(self, 0) == 0.0) as u8 as f64,
            "bxor" => ((wv(self, 0) != 0.0) != (wv(self, 1) != 0.0)) as u8 as f64,
            _ => 0.0,
        }
    }
    fn eval(&self, e: &E) -> f64 {
        match e {
            E::V(i) => self.w.get(*i).copied().unwrap_or(0.0),
            E::I(c) => *c as f64,
            E::F(c) => *c,
            E::B(op, a, b) => {
                let (x, y) = (self.eval(a), self.eval(b));
                match op { b'+' => x + y, b'-' => x - y, b'*' => x * y, b'/' => x / y, _ => x % y }
            }
        }
    }
    /// a comparison operator that holds between the two witness values (6 times out of 7)
    fn op_for(&mut self, x: f64, y: f64) -> i64 {
        if self.r.chance(1, 7) { return self.r.below(6) as i64; }
        let ok: Vec<i64> = (0..6i64).filter(|o| match o { 0 => x == y, 1 => x != y, 2 => x < y, 3 => x <= y, 4 => x > y, _ => x >= y }).collect();
        ok[self.r.below(ok.len() as u64) as usize]
    }
    fn int(&mut self, lo: i32, hi: i32) -> usize {
        self.decl(st("int", vec![n(lo), n(hi)]), K::I, (lo as i64, hi as i64))
    }
    fn float(&mut self, lo: f64, hi: f64) -> usize {
        self.decl(st("float", vec![A::F(lo), A::F(hi)]), K::F, (lo.floor() as i64, hi.ceil() as i64))
    }
    fn boolv(&mut self) -> usize {
        self.decl(st("bool", vec![]), K::B, (0, 1))
    }
    fn of(&self, k: K) -> Vec<usize> {
        (0..self.k.len()).filter(|i| self.k[*i] == k).collect()
    }
    fn ints(&self) -> Vec<usize> {
        (0..self.k.len()).filter(|i| self.k[*i] != K::F && self.h[*i].1 - self.h[*i].0 <= 64).collect()
    }
    fn pick(&mut self, v: &[usize]) -> usize {
        v[self.r.below(v.len() as u64) as usize]
    }
    fn some(&mut self, v: &[usize], lo: usize, hi: usize) -> Vec<usize> {
        // between lo and hi distinct elements of v, in random order
        let k = self.r.range(lo as i64, hi.min(v.len().max(lo)) as i64) as usize;
        let mut pool = v.to_vec();
        let mut o = vec![];
        for _ in 0..k {
            if pool.is_empty() { break; }
            let i = self.r.below(pool.len() as u64) as usize;
            o.push(pool.remove(i));
        }
        o
    }
    fn small_int_var(&mut self) -> usize {
        let lo = self.r.range(-3, 3) as i32;
        match self.r.below(10) {
            0 => self.int(lo, lo),
            1 | 2 => {
                let mut vals: Vec<i32> = (0..self.r.range(1, 4)).map(|_| self.r.range(-4, 6) as i32).collect();
                if self.r.chance(1, 4) { vals.push(vals[0]); }
                let h = (*vals.iter().min().unwrap() as i64, *vals.iter().max().unwrap() as i64);
                self.decl(st("set", vec![A::L(vals.iter().map(|x| *x as i64).collect())]), K::I, h)
            }
            3 => self.boolv(),
            _ => { let w = self.r.range(1, 4) as i32; self.int(lo, lo + w) }
        }
    }
    fn expr(&mut self, pool: &[usize], depth: u32, float: bool) -> E {
        if depth == 0 || self.r.chance(2, 5) {
            if self.r.chance(3, 4) && !pool.is_empty() {
                E::V(self.pick(pool))
            } else if float && self.r.chance(1, 2) {
                E::F(self.r.range(-8, 8) as f64 / 2.0)
            } else {
                E::I(self.r.range(-3, 4) as i32)
            }
        } else {
            let op = *self.r.pick(if float { b"++-*" } else { b"++--*" });
            let a = self.expr(pool, depth - 1, float);
            let b = if op == b'*' { if float { E::F(self.r.range(-4, 4) as f64 / 2.0) } else { E::I(self.r.range(-2, 3) as i32) } } else { self.expr(pool, depth - 1, float) };
            E::B(op, Box::new(a), Box::new(b))
        }
    }
    fn cmp(&mut self, pool: &[usize], float: bool) -> Vec<A> {
        let d = self.r.below(3) as u32;
        let lhs = self.expr(pool, d, float);
        let lv = self.eval(&lhs);
        let near = lv.round() as i64 + self.r.range(-2, 2);
        let rhs = if self.r.chance(1, 2) { self.expr(pool, 1, float) } else if float { E::F(near as f64 + self.r.below(2) as f64 / 2.0) } else { E::I(near.clamp(-100000, 100000) as i32) };
        let op = self.op_for(lv, self.eval(&rhs));
        vec![A::N(op), A::X(lhs), A::X(rhs)]
    }
    fn fluent(&mut self, pool: &[usize], float: bool) {
        let a = self.cmp(pool, float);
        match self.r.below(8) {
            0 => { let mut b = self.cmp(pool, float); let mut x = a; x.append(&mut b); self.s.push(st("and", x)); }
            1 => { let mut b = self.cmp(pool, float); let mut x = a; x.append(&mut b); self.s.push(st("or", x)); }
            2 => self.s.push(st("not", a)),
            _ => self.s.push(st("cmp", a)),
        }
    }
    fn lin(&mut self, pool: &[usize]) {
        let xs = self.some(pool, 1, 3);
        let cs: Vec<i64> = xs.iter().map(|_| self.r.range(-3, 3)).collect();
        let v: i64 = xs.iter().zip(&cs).map(|(x, c)| self.w[*x] as i64 * c).sum();
        let kind = self.r.below(3) as i64;
        // eq: the witness value; le: at or above it; ne: off it (6 times out of 7)
        let k = if self.r.chance(1, 7) { self.r.range(-6, 9) } else { match kind { 0 => v, 1 => v + self.r.range(0, 2), _ => v + self.r.range(1, 2) } };
        let bools = self.of(K::B);
        if !bools.is_empty() && self.r.chance(1, 4) {
            let b = self.pick(&bools);
            self.s.push(st("linr", vec![n(kind), A::L(cs), l(&xs), n(k), n(b)]));
        } else {
            self.s.push(st("lin", vec![n(kind), A::L(cs), l(&xs), n(k)]));
        }
    }
    fn fun(&mut self, pool: &[usize]) -> usize {
        let x = self.pick(pool);
        let y = self.pick(pool);
        let (hx, hy) = (self.h[x], self.h[y]);
        let c = self.r.range(-3, 3);
        match self.r.below(11) {
            0 => self.decl(st("add", vec![n(x), n(y)]), K::I, (hx.0 + hy.0, hx.1 + hy.1)),
            1 => self.decl(st("sub", vec![n(x), n(y)]), K::I, (hx.0 - hy.1, hx.1 - hy.0)),
            2 => {
                let c = [hx.0 * hy.0, hx.0 * hy.1, hx.1 * hy.0, hx.1 * hy.1];
                self.decl(st("mul", vec![n(x), n(y)]), K::I, (*c.iter().min().unwrap(), *c.iter().max().unwrap()))
            }
            3 => self.decl(st("addk", vec![n(x), n(c)]), K::I, (hx.0 + c, hx.1 + c)),
            4 => self.decl(st("mulk", vec![n(x), n(c)]), K::I, ((hx.0 * c).min(hx.1 * c), (hx.0 * c).max(hx.1 * c))),
            5 => self.decl(st("abs", vec![n(x)]), K::I, (0, hx.0.abs().max(hx.1.abs()))),
            6 | 7 => {
                let xs = self.some(pool, 1, 3);
                let lo = xs.iter().map(|i| self.h[*i].0).min().unwrap();
                let hi = xs.iter().map(|i| self.h[*i].1).max().unwrap();
                let name = if self.r.chance(1, 2) { "min" } else { "max" };
                self.decl(st(name, vec![l(&xs)]), K::I, (lo, hi))
            }
            8 => {
                let xs = self.some(pool, 1, 3);
                let lo = xs.iter().map(|i| self.h[*i].0).sum();
                let hi = xs.iter().map(|i| self.h[*i].1).sum();
                self.decl(st("sum", vec![l(&xs)]), K::I, (lo, hi))
            }
            9 => self.decl(st("div", vec![n(x), n(y)]), K::F, (-100, 100)),
            _ => self.decl(st("mod", vec![n(x), n(y)]), K::I, (-hy.0.abs().max(hy.1.abs()), hy.0.abs().max(hy.1.abs()))),
        }
    }
    fn global(&mut self, pool: &[usize]) {
        match self.r.below(9) {
            0 | 1 | 2 => { let xs = self.some(pool, 2, 4); self.s.push(st("alldiff", vec![l(&xs)])); }
            3 => { let xs = self.some(pool, 2, 3); self.s.push(st("alleq", vec![l(&xs)])); }
            4 => {
                let arr = self.some(pool, 1, 4);
                let (i, v) = (self.pick(pool), self.pick(pool));
                self.s.push(st("elem", vec![l(&arr), n(i), n(v)]));
            }
            5 => {
                let xs = self.some(pool, 1, 4);
                let c = self.pick(pool);
                self.s.push(st("count", vec![l(&xs), n(self.r.range(-2, 3)), n(c)]));
            }
            6 => {
                let xs = self.some(pool, 1, 3);
                let rows: Vec<Vec<i64>> = (0..self.r.range(0, 4)).map(|_| xs.iter().map(|_| self.r.range(-3, 4)).collect()).collect();
                self.s.push(st("table", vec![l(&xs), A::T(rows)]));
            }
            _ => {
                let xs = self.some(pool, 1, 4);
                self.s.push(st("card", vec![n(self.r.below(3)), l(&xs), n(self.r.range(-2, 3)), n(self.r.range(0, 3))]));
            }
        }
    }
    fn boolean(&mut self) {
        let mut bs = self.of(K::B);
        while bs.len() < 2 {
            bs.push(self.boolv());
        }
        match self.r.below(7) {
            0 => { let xs = self.some(&bs, 1, 3); self.decl(st("band", vec![l(&xs)]), K::B, (0, 1)); }
            1 => { let xs = self.some(&bs, 1, 3); self.decl(st("bor", vec![l(&xs)]), K::B, (0, 1)); }
            2 => { let x = self.pick(&bs); self.decl(st("bnot", vec![n(x)]), K::B, (0, 1)); }
            3 => { let (x, y) = (self.pick(&bs), self.pick(&bs)); self.decl(st("bxor", vec![n(x), n(y)]), K::B, (0, 1)); }
            4 => { let (x, y) = (self.pick(&bs), self.pick(&bs)); self.s.push(st("implies", vec![n(x), n(y)])); }
            5 => { let (p, q) = (self.some(&bs, 0, 2), self.some(&bs, 0, 2)); self.s.push(st("clause", vec![l(&p), l(&q)])); }
            _ => {
                let xs = self.some(&bs, 1, 3);
                let cs: Vec<i64> = xs.iter().map(|_| self.r.range(-2, 3)).collect();
                self.s.push(st("blin", vec![n(self.r.below(3)), A::L(cs), l(&xs), n(self.r.range(-2, 4))]));
            }
        }
    }
    fn reif(&mut self, pool: &[usize]) {
        let mut bs = self.of(K::B);
        if bs.is_empty() {
            bs.push(self.boolv());
        }
        let (x, y, b) = (self.pick(pool), self.pick(pool), self.pick(&bs));
        self.s.push(st("reif", vec![n(self.r.below(6)), n(x), n(y), n(b)]));
    }
    fn opt_calls(&mut self, calls: &mut Vec<Call>, pool: &[usize]) {
        if pool.is_empty() { return; }
        let v = self.pick(pool);
        calls.push(if self.r.chance(1, 2) { Call::Min(v) } else { Call::Max(v) });
        if self.r.chance(1, 3) {
            let v = self.pick(pool);
            calls.push(if self.r.chance(1, 2) { Call::MinIter(v, 30) } else { Call::MaxIter(v, 30) });
        }
    }
}

/// random small integer / boolean model with fluent, linear, global, result-function constraints
fn gen_csp(r: &mut Rng) -> (Vec<St>, Vec<Call>) {
    let mut g = G::new(r);
    for _ in 0..g.r.range(2, 5) {
        g.small_int_var();
    }
    for _ in 0..g.r.range(1, 5) {
        let pool = g.ints();
        match g.r.below(12) {
            0..=3 => g.fluent(&pool, false),
            4 | 5 => g.lin(&pool),
            6 | 7 => g.global(&pool),
            8 | 9 => {
                let f = g.fun(&pool);
                if g.r.chance(1, 2) {
                    let rhs = g.w[f].round() as i64 + g.r.range(-1, 1);
                    let op = g.op_for(g.w[f], rhs as f64);
                    g.s.push(st("cmp", vec![A::N(op), A::X(E::V(f)), A::X(E::I(rhs.clamp(-100000, 100000) as i32))]));
                }
            }
            10 => g.boolean(),
            _ => g.reif(&pool),
        }
    }
    let mut calls = vec![Call::Validate, Call::Registry, Call::Solve, Call::Enum(60)];
    let pool = g.ints();
    g.opt_calls(&mut calls, &pool);
    (g.s, calls)
}

/// several AllDifferent constraints that fail validation (two variables fixed to the same value /
/// fewer values than variables / a duplicated variable), other invalid constraints around them:
/// every run must report the SAME first error
fn gen_invalid(r: &mut Rng) -> (Vec<St>, Vec<Call>) {
    let mut g = G::new(r);
    let nv = g.r.range(4, 7);
    for _ in 0..nv {
        let lo = g.r.range(0, 2) as i32;
        if g.r.chance(1, 2) { g.int(lo, lo); } else { let w = g.r.range(0, 2) as i32; g.int(lo, lo + w); }
    }
    let all: Vec<usize> = (0..nv as usize).collect();
    let mut bad = 0;
    let total = g.r.range(2, 5);
    for _ in 0..total {
        match g.r.below(6) {
            0 | 1 => {
                // two variables fixed to the same value
                let v = g.r.range(0, 2) as i32;
                let (a, b) = (g.int(v, v), g.int(v, v));
                let mut xs = g.some(&all, 0, 2);
                xs.insert(g.r.below(xs.len() as u64 + 1) as usize, a);
                xs.insert(g.r.below(xs.len() as u64 + 1) as usize, b);
                g.s.push(st("alldiff", vec![l(&xs)]));
                bad += 1;
            }
            2 | 3 => {
                // pigeonhole: k+1 variables over k values
                let k = g.r.range(1, 3) as i32;
                let xs: Vec<usize> = (0..=k).map(|_| g.int(0, k - 1)).collect();
                g.s.push(st("alldiff", vec![l(&xs)]));
                bad += 1;
            }
            4 => {
                // duplicated variable (a parameter error, reported after the conflict errors)
                let mut xs = g.some(&all, 2, 3);
                xs.push(xs[0]);
                g.s.push(st("alldiff", vec![l(&xs)]));
                bad += 1;
            }
            _ => {
                // a valid one in between, or a division whose divisor may be zero
                if g.r.chance(1, 2) {
                    let xs: Vec<usize> = (0..2).map(|_| g.int(0, 5)).collect();
                    g.s.push(st("alldiff", vec![l(&xs)]));
                } else {
                    let (x, y) = (g.pick(&all), g.pick(&all));
                    let nm = if g.r.chance(1, 2) { "div" } else { "mod" };
                    g.decl(st(nm, vec![n(x), n(y)]), K::I, (-9, 9));
                }
            }
        }
    }
    if bad < 2 {
        let xs: Vec<usize> = (0..3).map(|_| g.int(0, 1)).collect();
        g.s.push(st("alldiff", vec![l(&xs)]));
        let (a, b) = (g.int(1, 1), g.int(1, 1));
        g.s.push(st("alldiff", vec![l(&[a, b])]));
    }
    if g.r.chance(1, 3) {
        g.fluent(&all, false);
    }
    let v = g.pick(&all);
    (g.s, vec![Call::Validate, Call::Registry, Call::Solve, Call::Enum(5), Call::Min(v), Call::MaxIter(v, 5)])
}

/// float / mixed linear models with several `m.add(var,var)` and an objective, so that the root
/// LP step runs (extract_linear_system, to_lp_problem, apply_lp_solution)
fn gen_lp(r: &mut Rng) -> (Vec<St>, Vec<Call>) {
    let mut g = G::new(r);
    let nf = g.r.range(2, 4);
    for _ in 0..nf {
        if g.r.chance(1, 5) {
            let lo = g.r.range(0, 3) as i32;
            let w = g.r.range(2, 8) as i32;
            g.int(lo, lo + w);
        } else {
            let lo = g.r.range(-4, 4) as f64 / 2.0;
            let w = g.r.range(1, 20) as f64 / 2.0;
            g.float(lo, lo + w);
        }
    }
    let base: Vec<usize> = (0..g.k.len()).collect();
    let mut sums = vec![];
    for _ in 0..g.r.range(2, 4) {
        let pool: Vec<usize> = (0..g.k.len()).collect();
        let (x, y) = (g.pick(&pool), g.pick(&pool));
        let h = (g.h[x].0 + g.h[y].0, g.h[x].1 + g.h[y].1);
        let k = if g.k[x] == K::F || g.k[y] == K::F { K::F } else { K::I };
        sums.push(g.decl(st("add", vec![n(x), n(y)]), k, h));
    }
    for _ in 0..g.r.range(1, 4) {
        let pool: Vec<usize> = (0..g.k.len()).collect();
        match g.r.below(6) {
            0 | 1 => {
                let xs = g.some(&pool, 1, 3);
                let cs: Vec<f64> = xs.iter().map(|_| g.r.range(-4, 6) as f64 / 2.0).collect();
                let v: f64 = xs.iter().zip(&cs).map(|(x, c)| g.w[*x] * c).sum();
                let kind = g.r.below(2);
                let k = if g.r.chance(1, 7) { g.r.range(0, 30) as f64 / 2.0 } else if kind == 0 { v } else { v + g.r.range(0, 4) as f64 / 2.0 };
                g.s.push(st("flin", vec![n(kind), A::G(cs), l(&xs), A::F(k)]));
            }
            2 | 3 => {
                // var <= var: LessThanOrEquals propagator, scanned by extract_linear_system
                let (x, y) = (g.pick(&pool), g.pick(&pool));
                let (x, y) = if g.w[x] <= g.w[y] || g.r.chance(1, 7) { (x, y) } else { (y, x) };
                g.s.push(st("cmp", vec![A::N(3), A::X(E::V(x)), A::X(E::V(y))]));
            }
            4 => g.fluent(&pool, true),
            _ => {
                let x = g.pick(&pool);
                let c = g.w[x] + g.r.range(-2, 2) as f64 / 2.0;
                let op = g.op_for(g.w[x], c);
                g.s.push(st("cmp", vec![A::N(op), A::X(E::V(x)), A::X(E::F(c))]));
            }
        }
    }
    let mut calls = vec![Call::Lp, Call::Validate, Call::Registry, Call::Solve];
    let o = g.pick(&sums);
    calls.push(if g.r.chance(1, 2) { Call::Max(o) } else { Call::Min(o) });
    let b = if g.r.chance(1, 2) { g.pick(&base) } else { g.pick(&sums) };
    calls.push(if g.r.chance(1, 2) { Call::Max(b) } else { Call::Min(b) });
    if g.r.chance(1, 4) {
        calls.push(Call::MaxIter(o, 10));
    }
    (g.s, calls)
}

/// unbounded declarations (bound inference at creation and in `infer_unbounded_from_asts`,
/// including the deferred `x == c` special case)
fn gen_unbounded(r: &mut Rng) -> (Vec<St>, Vec<Call>) {
    let mut g = G::new(r);
    let ctx = g.r.chance(9, 10);
    if ctx {
        let lo = g.r.range(-2, 2) as i32;
        let w = g.r.range(1, 3) as i32;
        g.int(lo, lo + w);
        if g.r.chance(1, 2) {
            let w = g.r.range(1, 4) as f64;
            g.float(0.0, w);
        }
    }
    let mut ub = vec![];
    // at most one unbounded integer: a second one would take the first one's inferred range as
    // its context and grow to the 1M-value cap
    for j in 0..g.r.range(1, 2) {
        let c = g.r.range(-3, 3);
        let (s, k) = match if j == 0 { g.r.below(5) } else { 4 } {
            0 | 1 => (st("uint", vec![]), K::I),
            2 => (st("intlo", vec![n(c)]), K::I),
            3 => (st("inthi", vec![n(c)]), K::I),
            _ => (st("ufloat", vec![]), K::F),
        };
        ub.push(g.decl(s, k, (-100000, 100000)));
    }
    for &u in &ub.clone() {
        let f = g.k[u] == K::F;
        let c = |_g: &mut G, x: i64| if f { E::F(x as f64 / 2.0) } else { E::I(x as i32) };
        match g.r.below(5) {
            0 => { let e = c(&mut g, 47); g.s.push(st("cmp", vec![A::N(0), A::X(E::V(u)), A::X(e)])); }
            1 => { let x = g.r.range(-5, 5);
                let e = c(&mut g, x); g.s.push(st("cmp", vec![A::N(0), A::X(e), A::X(E::V(u))])); }
            2 => {
                let (a, b) = (g.r.range(-6, 0), g.r.range(0, 6));
                let (ea, eb) = (c(&mut g, a), c(&mut g, b));
                g.s.push(st("cmp", vec![A::N(5), A::X(E::V(u)), A::X(ea)]));
                g.s.push(st("cmp", vec![A::N(3), A::X(E::V(u)), A::X(eb)]));
            }
            3 if !f => {
                let o = if ctx { 0 } else { u };
                g.s.push(st("lin", vec![n(g.r.below(2)), A::L(vec![1, g.r.range(1, 3)]), l(&[u, o]), n(g.r.range(-4, 8))]));
            }
            _ => { let x = g.r.range(-4, 4);
                let e = c(&mut g, x); g.s.push(st("cmp", vec![A::N(*g.r.pick(&[4i64, 5])), A::X(E::V(u)), A::X(e)])); }
        }
    }
    let u = ub[0];
    let mut calls = vec![Call::Validate, Call::Registry, Call::Solve, Call::Enum(4)];
    if ctx || g.k[u] == K::F {
        // (without a context the fallback domain has 200 001 values: too slow to optimise over)
        calls.push(if g.r.chance(1, 2) { Call::Min(u) } else { Call::Max(u) });
    }
    (g.s, calls)
}

/// AllDifferent over domains wider than 128 values (the SparseSet half of `HybridGAC`), mixed
/// with small ones (cross propagation between the two halves)
fn gen_bigdom(r: &mut Rng) -> (Vec<St>, Vec<Call>) {
    let mut g = G::new(r);
    let nb = g.r.range(1, 3);
    for _ in 0..nb {
        let lo = g.r.range(-5, 5) as i32;
        let w = g.r.range(128, 220) as i32;
        g.int(lo, lo + w);
    }
    for _ in 0..g.r.range(1, 3) {
        let lo = g.r.range(-5, 5) as i32;
        let w = g.r.range(0, 3) as i32;
        g.int(lo, lo + w);
    }
    let all: Vec<usize> = (0..g.k.len()).collect();
    let xs = g.some(&all, 2, all.len());
    g.s.push(st("alldiff", vec![l(&xs)]));
    if g.r.chance(1, 2) {
        let ys = g.some(&all, 2, all.len());
        g.s.push(st("alldiff", vec![l(&ys)]));
    }
    for _ in 0..g.r.range(0, 2) {
        g.fluent(&all, false);
    }
    let v = g.pick(&all);
    let opt = if g.r.chance(1, 2) { Call::Min(v) } else { Call::Max(v) };
    (g.s, vec![Call::Validate, Call::Solve, Call::Enum(25), opt])
}

/// integers, floats, conversions, reified and boolean constraints together
fn gen_mixed(r: &mut Rng) -> (Vec<St>, Vec<Call>) {
    let mut g = G::new(r);
    for _ in 0..g.r.range(1, 3) {
        g.small_int_var();
    }
    let mut fl = vec![];
    for _ in 0..g.r.range(1, 2) {
        let lo = g.r.range(-4, 4) as f64 / 2.0;
        let w = g.r.range(1, 8) as f64 / 2.0;
        fl.push(g.float(lo, lo + w));
    }
    for _ in 0..g.r.range(1, 4) {
        let ints = g.ints();
        let all: Vec<usize> = (0..g.k.len()).collect();
        match g.r.below(8) {
            0 => { let (i, f) = (g.pick(&ints), g.pick(&fl)); g.s.push(st("i2f", vec![n(i), n(f)])); }
            1 => { let (i, f) = (g.pick(&ints), g.pick(&fl)); g.s.push(st(*g.r.pick(&["floor", "ceil", "round"]), vec![n(f), n(i)])); }
            2 => g.fluent(&all, true),
            3 => g.fluent(&fl.clone(), true),
            4 => g.reif(&all),
            5 => g.boolean(),
            6 => {
                let x = g.pick(&fl);
                let c = g.r.range(-4, 4) as f64 / 2.0;
                let nm = if g.r.chance(1, 2) { "faddk" } else { "fmulk" };
                fl.push(g.decl(st(nm, vec![n(x), A::F(c)]), K::F, (-50, 50)));
            }
            _ => g.lin(&ints),
        }
    }
    let all: Vec<usize> = (0..g.k.len()).collect();
    let mut calls = vec![Call::Validate, Call::Registry, Call::Lp, Call::Solve, Call::Enum(12)];
    g.opt_calls(&mut calls, &all);
    (g.s, calls)
}

fn run_case(out: &mut Out, r: &mut Rng, i: u64) {
    let (fam, (stmts, calls)) = match r.below(20) {
        0..=6 => ("csp", gen_csp(r)),
        7 | 8 => ("alldiff-invalid", gen_invalid(r)),
        9..=12 => ("lp", gen_lp(r)),
        13 | 14 => ("unbounded", gen_unbounded(r)),
        15 => ("bigdom", gen_bigdom(r)),
        _ => ("mixed", gen_mixed(r)),
    };
    out.case(&format!("det{i}-{fam}"));
    out.stat(&format!("family.{fam}"));
    for s in &stmts {
        out.stat(&format!("stmt.{}", s.op));
    }
    let mut cut = false;
    for c in &calls {
        if cut && !matches!(c, Call::Validate | Call::Registry | Call::Lp) {
            // the watchdog already abandoned a run of this model (its threads are still spinning):
            // do not start more of them
            out.stat("outcome.time-limit");
            out.emit(format!("#det {} | {}", c.show(), show_model(&stmts)), "time-limit");
            continue;
        }
        cut |= do_call(out, &stmts, c);
    }
}

// ------------------------------------------------------------------------------------------------
// probes of the hash-ordered public helper structs (not reached by solve)
// ------------------------------------------------------------------------------------------------
fn show_doms(d: &[Vec<i32>]) -> String {
    join(d, "|", |x| join(x, ",", |v| v.to_string()))
}

fn parse_doms(t: &str) -> Option<Vec<Vec<i32>>> {
    t.split('|').map(|d| if d.is_empty() { Some(vec![]) } else { d.split(',').map(|x| x.parse().ok()).collect() }).collect()
}

/// one run of one probe on fresh structures
fn probe_once(kind: &str, doms: &[Vec<i32>]) -> String {
    use selen::constraints::gac_bitset::BitSetGAC;
    use selen::constraints::gac_hybrid::{HybridGAC, Variable};
    use selen::constraints::gac_sparseset::SparseSetGAC;
    let vars: Vec<Variable> = (0..doms.len()).map(Variable).collect();
    let sorted = |mut v: Vec<i32>| { v.sort(); v };
    guarded(|| match kind {
        "ssgac" => {
            let mut g = SparseSetGAC::new();
            for (i, d) in doms.iter().enumerate() {
                g.add_variable_with_values(Variable(i), d.clone());
            }
            let (ch, ok) = g.propagate_alldiff(&vars);
            let res: Vec<Vec<i32>> = vars.iter().map(|v| sorted(g.get_domain_values(*v))).collect();
            format!("changed={} consistent={} doms={}", ch as u8, ok as u8, show_doms(&res))
        }
        "bsgac" => {
            let mut g = BitSetGAC::new();
            for (i, d) in doms.iter().enumerate() {
                g.add_variable_with_values(Variable(i), d.clone());
            }
            let (ch, ok) = g.propagate_alldiff(&vars);
            let res: Vec<Vec<i32>> = vars.iter().map(|v| sorted(g.get_domain_values(*v))).collect();
            format!("changed={} consistent={} doms={}", ch as u8, ok as u8, show_doms(&res))
        }
        "hygac" => {
            let mut g = HybridGAC::new();
            for (i, d) in doms.iter().enumerate() {
                if g.add_variable_with_values(Variable(i), d.clone()).is_err() {
                    return "add-error".to_string();
                }
            }
            let (ch, ok) = g.propagate_alldiff(&vars);
            let res: Vec<Vec<i32>> = vars.iter().map(|v| sorted(g.get_domain_values(*v))).collect();
            format!("changed={} consistent={} doms={}", ch as u8, ok as u8, show_doms(&res))
        }
        "precprops" => {
            // `create_precision_propagators`: one propagator per variable of the `<`/`<=`/`>`/`>=`
            // constraints of a registry, returned in the iteration order of a HashSet
            let mut m = Model::default();
            let xs: Vec<VarId> = doms.iter().map(|_| m.float(0.0, 1.0)).collect();
            let mut reg = ConstraintRegistry::new();
            for w in xs.windows(2) {
                reg.register_constraint(ConstraintType::LessThanOrEquals, vec![w[0], w[1]], ConstraintData::None);
            }
            let ps = selen::optimization::precision_propagator::create_precision_propagators(&reg, 1e-6);
            format!("order={}", join(&ps, ";", |p| clean(&format!("{p:?}"))))
        }
        _ => "bad-probe".to_string(),
    })
    .unwrap_or_else(|| "panic".into())
}

fn probe_tag(kind: &str) -> &'static str {
    match kind {
        "ssgac" => "gac-sparseset-hash-order",
        "precprops" => "precision-propagators-hash-order",
        _ => "-",
    }
}

fn do_probe(out: &mut Out, kind: &str, doms: &[Vec<i32>], reps: usize) {
    let mut seen: Vec<String> = vec![];
    for _ in 0..reps.max(1) {
        let r = probe_once(kind, doms);
        if !seen.contains(&r) {
            seen.push(r);
        }
    }
    seen.sort();
    out.stat(&format!("probe.{kind}"));
    let line = out.emit(format!("#det probe {kind} {reps} {}", show_doms(doms)), seen.join(" || "));
    if seen.len() > 1 {
        out.stat(&format!("probe.{kind}.order-dependent"));
        out.fail(line, "C16", probe_tag(kind), format!("{} distinct outcomes of {reps} runs on fresh structures: {}", seen.len(), seen.join(" || ")));
    }
}

fn probes(out: &mut Out, r: &mut Rng, count: u64, reps: usize) {
    // the documented witness first (DESIGN.md D15): {0,2},{0,1}
    out.case("detp-w");
    for k in ["ssgac", "bsgac", "hygac", "precprops"] {
        do_probe(out, k, &[vec![0, 2], vec![0, 1]], reps);
    }
    for i in 0..count {
        out.case(&format!("detp{i}"));
        let nv = r.range(2, 4) as usize;
        let width = r.range(2, 4);
        let doms: Vec<Vec<i32>> = (0..nv)
            .map(|_| {
                let mut d: Vec<i32> = (0..width).filter(|_| r.chance(3, 5)).map(|x| x as i32).collect();
                if d.is_empty() { d.push(r.below(width as u64) as i32); }
                d
            })
            .collect();
        for k in ["ssgac", "bsgac", "hygac"] {
            do_probe(out, k, &doms, reps);
        }
        if i % 16 == 0 {
            do_probe(out, "precprops", &doms, reps);
        }
    }
}

// ------------------------------------------------------------------------------------------------
// entry points
// ------------------------------------------------------------------------------------------------
fn arg(args: &[String], name: &str) -> Option<String> {
    args.iter().position(|a| a == name).and_then(|i| args.get(i + 1)).cloned()
}

pub fn suite(out: &mut Out, seed: u64, count: u64, args: &[String]) {
    if std::env::var("DET_TRACE").is_ok() {
        std::panic::set_hook(Box::new(|i| eprintln!("{i}")));
    }
    let mut root = Rng::new(seed ^ STREAM);
    if let Some(b) = arg(args, "--budget") {
        BUDGET.store(b.parse().unwrap_or(600), std::sync::atomic::Ordering::Relaxed);
    }
    if let Some(b) = arg(args, "--wall") {
        WALL_MS.store(b.parse().unwrap_or(5000), std::sync::atomic::Ordering::Relaxed);
    }
    if let Some(path) = arg(args, "--replay-ops") {
        // re-run the lines of an .ops file verbatim (`bin/check --replay` needs main.rs to route
        // `#det` lines to `replay_line`; until then this is the replay entry point)
        for line in std::fs::read_to_string(&path).unwrap_or_default().lines() {
            if let Some(id) = line.strip_prefix("case ") {
                out.case(id);
            } else {
                replay_line(out, line);
            }
        }
        return;
    }
    if let Some(reps) = arg(args, "--probe") {
        let reps: usize = reps.parse().unwrap_or(32);
        let mut r = root.fork();
        probes(out, &mut r, count, reps);
        return;
    }
    // the per-case generators are forked up front, in order; the cases then run on `--jobs`
    // worker threads into private transcripts that are merged in case order, so the files do
    // not depend on the scheduling
    let jobs: usize = arg(args, "--jobs").and_then(|j| j.parse().ok()).unwrap_or(4).max(1);
    let states: Vec<u64> = (0..count).map(|_| root.fork().0).collect();
    let next = std::sync::atomic::AtomicUsize::new(0);
    let done: std::sync::Mutex<Vec<Option<Out>>> = std::sync::Mutex::new((0..count).map(|_| None).collect());
    std::thread::scope(|sc| {
        for _ in 0..jobs {
            sc.spawn(|| loop {
                let i = next.fetch_add(1, std::sync::atomic::Ordering::Relaxed);
                if i >= states.len() {
                    break;
                }
                let mut o = Out::default();
                run_case(&mut o, &mut Rng(states[i]), i as u64);
                done.lock().unwrap()[i] = Some(o);
            });
        }
    });
    for o in done.into_inner().unwrap().into_iter().flatten() {
        let off = out.ops.len();
        out.ops.extend(o.ops);
        out.imp.extend(o.imp);
        out.oracle.extend(o.oracle.into_iter().map(|(l, p, t, d)| (l + off, p, t, d)));
        for (k, v) in o.stats {
            *out.stats.entry(k).or_insert(0) += v;
        }
        out.samples.extend(o.samples);
    }
}

/// replay of one protocol line of this suite inside the current case
pub fn replay_line(out: &mut Out, line: &str) {
    let Some(rest) = line.strip_prefix("#det ") else { return };
    if let Some(p) = rest.strip_prefix("probe ") {
        let w: Vec<&str> = p.split_whitespace().collect();
        if let (Some(kind), Some(reps), Some(doms)) = (w.first(), w.get(1).and_then(|x| x.parse().ok()), w.get(2).and_then(|d| parse_doms(d))) {
            do_probe(out, kind, &doms, reps);
            return;
        }
        out.emit(line, "bad-line");
        return;
    }
    let parsed = rest.split_once(" | ").and_then(|(c, m)| Some((Call::parse(c)?, parse_model(m)?)));
    match parsed {
        Some((call, stmts)) => { do_call(out, &stmts, &call); }
        None => { out.emit(line, "bad-line"); }
    }
}
